package checks

import "math/big"

// bigF is a big.Float with an int setter returning itself (small helper).
type bigF struct{ big.Float }

func (b *bigF) SetInt(x *big.Int) *bigF { b.Float.SetInt(x); return b }
