package checks

import (
	"crypto/rand"
	"encoding/binary"
	"encoding/json"
	"fmt"
	"os"
	"os/exec"
	"path/filepath"
	"sort"
	"strconv"
	"strings"
	"sync/atomic"
	"syscall"
	"unsafe"

	"go.1password.io/spg"
	"verif/harness/core"
	"verif/harness/tape"
)

// ---------- C01: bounded draws are exactly uniform ----------
//
// For each bound n of the tier's list, ALL 2^32 values of the first random
// word are fed to the real randomUint32n (through crypto/rand.Read on a
// scripted reader). Per-outcome counts are accumulated in a histogram shared
// by the 16 worker processes (a file in /dev/shm) and must all be equal.

type sweepReader struct {
	w     [3]uint32
	reads int
}

func (s *sweepReader) Read(p []byte) (int, error) {
	if len(p) != 4 {
		// a draw that does not consume whole 32-bit words: serve zeros for
		// the part we do not have, but make it visible
		s.reads += 1000
		for i := range p {
			p[i] = 0
		}
		return len(p), nil
	}
	i := s.reads
	if i > 2 {
		i = 2
	}
	if s.reads > 4096 {
		// a draw that keeps rejecting the sentinel word (accepted when it
		// comes first) would never return
		panic("verif: bounded draw does not terminate (more than 4096 reads)")
	}
	binary.BigEndian.PutUint32(p, s.w[i])
	s.reads++
	return 4, nil
}

// longReader serves a list of words, chunk bytes at a time (0 = whole request).
type longReader struct {
	b     []byte
	pos   int
	chunk int
	reads int
	dry   bool
}

func (r *longReader) Read(p []byte) (int, error) {
	r.reads++
	n := len(p)
	if r.chunk > 0 && n > r.chunk {
		n = r.chunk
	}
	if r.pos+n > len(r.b) {
		r.dry = true
		if r.reads > len(r.b)+4096 {
			// the zero words served after the script ran dry are rejected
			// for ever: stop the draw (drawLong reports it as not ok)
			panic("verif: bounded draw does not terminate on a dry source")
		}
		for i := range p[:n] {
			p[i] = 0
		}
		return n, nil
	}
	copy(p, r.b[r.pos:r.pos+n])
	r.pos += n
	return n, nil
}

// drawLong runs one bounded draw on a word list; returns result, words consumed.
func drawLong(n uint32, words []uint32, chunk int) (res uint32, used int, ok bool) {
	lr := &longReader{b: make([]byte, 4*len(words)), chunk: chunk}
	for i, w := range words {
		binary.BigEndian.PutUint32(lr.b[4*i:], w)
	}
	old := rand.Reader
	rand.Reader = lr
	defer func() {
		rand.Reader = old
		if recover() != nil {
			ok = false
		}
	}()
	res = spg.VerifRandomUint32n(n)
	return res, lr.pos / 4, !lr.dry && lr.pos%4 == 0
}

var c01RunLengths = []int{2, 3, 4, 5, 6, 7, 8, 9, 10, 11, 12, 13, 14, 15, 16, 17, 18, 19, 20, 24, 31, 32, 33, 48, 63, 64, 65, 100, 127, 128, 129, 200, 255, 256, 257, 500, 1000, 1024, 4096, 65536, 100000}

func c01Bounds(tier string) []uint32 {
	if e := os.Getenv("VERIF_C01_BOUNDS"); e != "" { // ad-hoc runs only; the registered commands do not set it
		var out []uint32
		for _, f := range strings.Split(e, ",") {
			v, err := strconv.ParseUint(strings.TrimSpace(f), 10, 32)
			if err == nil && v > 0 {
				out = append(out, uint32(v))
			}
		}
		return out
	}
	if tier == "quick" {
		return []uint32{3, 1<<31 + 1, 2}
	}
	set := map[uint32]bool{}
	for n := uint32(1); n <= 70; n++ {
		set[n] = true
	}
	for _, n := range []uint32{10129, 10134, 18325, 18328, 3 << 30, 1<<32 - 1, 1<<32 - 2, 1000, 1 << 31, 1<<31 + 1, 1<<31 - 1} {
		set[n] = true
	}
	for k := uint(1); k <= 31; k++ {
		set[1<<k-1] = true
		set[1<<k] = true
		set[1<<k+1] = true
	}
	var out []uint32
	for n := range set {
		out = append(out, n)
	}
	// order: cheapest information first (small n, then large)
	sort.Slice(out, func(i, j int) bool { return out[i] < out[j] })
	return out
}

// counter width (bits) of the shared histogram for bound n
func c01Width(n uint32) int {
	switch {
	case n <= 1<<21:
		return 64 // up to 2^32 words can select one outcome (n = 1)
	case n <= 1<<26:
		return 16 // K < 1024
	case n <= 1<<30:
		return 8 // K < 64
	default:
		return 2 // K <= 3
	}
}

func c01FileSize(n uint32) int64 {
	w := int64(c01Width(n))
	return (int64(n)*w+63)/64*8 + 64
}

func mmapFile(path string, size int64, create bool) ([]byte, error) {
	flag := os.O_RDWR
	if create {
		flag |= os.O_CREATE | os.O_TRUNC
	}
	f, err := os.OpenFile(path, flag, 0o600)
	if err != nil {
		return nil, err
	}
	defer f.Close()
	if create {
		if err := f.Truncate(size); err != nil {
			return nil, err
		}
	}
	return syscall.Mmap(int(f.Fd()), 0, int(size), syscall.PROT_READ|syscall.PROT_WRITE, syscall.MAP_SHARED)
}

// satAdd adds 1 to the width-bit field idx of the shared array, saturating.
func satAdd(words []uint32, idx uint64, width uint) {
	per := 32 / uint64(width)
	wi := idx / per
	sh := uint((idx % per)) * width
	mask := uint32(1)<<width - 1
	p := &words[wi]
	for {
		old := atomic.LoadUint32(p)
		f := (old >> sh) & mask
		if f == mask {
			return
		}
		if atomic.CompareAndSwapUint32(p, old, old+1<<sh) {
			return
		}
	}
}

func getField(words []uint32, idx uint64, width uint) uint64 {
	if width == 64 {
		return uint64(words[2*idx]) | uint64(words[2*idx+1])<<32
	}
	return uint64(getField32(words, idx, width))
}

func getField32(words []uint32, idx uint64, width uint) uint32 {
	per := 32 / uint64(width)
	return (words[idx/per] >> (uint(idx%per) * width)) & (uint32(1)<<width - 1)
}

func asWords(b []byte) []uint32 {
	return unsafe.Slice((*uint32)(unsafe.Pointer(&b[0])), len(b)/4)
}

func c01Dir() string { return os.Getenv("VERIF_C01_DIR") }

func c01Run(c *core.Ctx) {
	dir := c01Dir()
	if dir == "" {
		panic("C01 shard without VERIF_C01_DIR")
	}
	spg.VerifDrawHook = nil
	rd := &sweepReader{}
	rand.Reader = rd
	total := uint64(1) << 32
	lo := total / uint64(c.NShards) * uint64(c.Shard)
	hi := total / uint64(c.NShards) * uint64(c.Shard+1)
	if c.Shard == c.NShards-1 {
		hi = total
	}
	draw := func(n uint32, w0, w1, w2 uint32) (res uint32, reads int, panicked bool) {
		defer func() {
			if r := recover(); r != nil {
				panicked = true
			}
		}()
		rd.w = [3]uint32{w0, w1, w2}
		rd.reads = 0
		res = spg.VerifRandomUint32n(n)
		return res, rd.reads, false
	}
	for _, n := range c01Bounds(c.Tier) {
		if c.Expired() {
			c.Incomplete("deadline: bound %d and later not swept by shard %d", n, c.Shard)
			break
		}
		// calibrate the sentinel: a word that is accepted on its own
		sent, sentRes, found := c01Sentinel(draw, n)
		if !found {
			c.Violation(fmt.Sprintf("n=%d no-accepted-sentinel", n), "none of 70 candidate words spread over the 32-bit range is accepted in one read", map[string]interface{}{"n": n})
			continue
		}
		width := uint(c01Width(n))
		mem, err := mmapFile(filepath.Join(dir, fmt.Sprintf("hist-%d", n)), c01FileSize(n), false)
		if err != nil {
			panic(err)
		}
		shared := asWords(mem)
		var private []uint32
		if width == 64 {
			private = make([]uint32, n) // a shard sweeps 2^28 words: fits
		}
		var rejected, bad uint64
		var firstRej, lastRej []uint32
		from := lo
		sweep := func() {
			defer func() {
				if x := recover(); x != nil {
					bad++
					if bad <= 3 {
						c.Violation(fmt.Sprintf("n=%d panic", n), fmt.Sprintf("word %#x then %#x: %v", rd.w[0], sent, x), map[string]interface{}{"n": n, "words": []uint32{rd.w[0], sent}})
					}
					from = uint64(rd.w[0]) + 1
				}
			}()
			for w := from; w < hi; w++ {
				rd.w[0] = uint32(w)
				rd.w[1] = sent
				rd.w[2] = sent
				rd.reads = 0
				res := spg.VerifRandomUint32n(n)
				if res >= n {
					bad++
					if bad <= 3 {
						c.Violation(fmt.Sprintf("n=%d out-of-range", n), fmt.Sprintf("word %#x gave %d >= n", w, res), map[string]interface{}{"n": n, "words": []uint32{uint32(w), sent}})
					}
					continue
				}
				switch rd.reads {
				case 1:
					if private != nil {
						private[res]++
					} else {
						satAdd(shared, uint64(res), width)
					}
				case 2:
					rejected++
					if len(firstRej) < 2048 {
						firstRej = append(firstRej, uint32(w))
					} else {
						if len(lastRej) == 2048 {
							lastRej = lastRej[1:]
						}
						lastRej = append(lastRej, uint32(w))
					}
					if res != sentRes {
						bad++
						if bad <= 3 {
							c.Violation(fmt.Sprintf("n=%d not-redrawn", n), fmt.Sprintf("rejected word %#x followed by %#x gave %d, the continuation alone gives %d", w, sent, res, sentRes), map[string]interface{}{"n": n, "words": []uint32{uint32(w), sent}})
						}
					}
				default:
					bad++
					if bad <= 3 {
						c.Violation(fmt.Sprintf("n=%d reads", n), fmt.Sprintf("word %#x: %d reads (not whole words, or an accepted word re-drawn)", w, rd.reads), map[string]interface{}{"n": n, "words": []uint32{uint32(w), sent}})
					}
				}
			}
			from = hi
		}
		for from < hi && bad < 64 {
			sweep()
		}
		if private != nil {
			for i, v := range private {
				if v != 0 {
					atomic.AddUint64((*uint64)(unsafe.Pointer(&shared[2*i])), uint64(v))
				}
			}
		}
		// header (last 64 bytes of the file): rejected count, words swept
		hdr := shared[len(shared)-16:]
		atomic.AddUint64((*uint64)(unsafe.Pointer(&hdr[0])), rejected)
		atomic.AddUint64((*uint64)(unsafe.Pointer(&hdr[2])), hi-lo)
		syscall.Munmap(mem)
		c.Count("executions", int64(hi-lo))
		c.Count("rejected_words", int64(rejected))
		c.Count("bad_words", int64(bad))
		// continuations after a rejected word: redrawn, not patched
		K := uint32((uint64(1) << 32) / uint64(n))
		conts := []uint32{0, 1, n - 1, n, K*n - 1, K * n, 1<<32 - 1, sent}
		rej := append(append([]uint32{}, firstRej...), lastRej...)
		if len(rej) > 0 {
			// a second rejected word, for depth 3
			r2 := rej[len(rej)-1]
			for _, r1 := range rej {
				for _, cw := range conts {
					alone, readsAlone, p0 := draw(n, cw, sent, sent)
					got, reads, p1 := draw(n, r1, cw, sent)
					c.Count("continuation_runs", 2)
					if p0 || p1 || reads != readsAlone+1 || got != alone {
						c.Violation(fmt.Sprintf("n=%d continuation", n), fmt.Sprintf("after rejected %#x, continuation %#x: got %d in %d reads; alone: %d in %d reads", r1, cw, got, reads, alone, readsAlone), map[string]interface{}{"n": n, "words": []uint32{r1, cw, sent}})
					}
				}
				alone, _, _ := draw(n, sent, sent, sent)
				got, reads, p := draw(n, r1, r2, sent)
				c.Count("continuation_runs", 1)
				if p || reads != 3 || got != alone {
					c.Violation(fmt.Sprintf("n=%d continuation3", n), fmt.Sprintf("two rejected words %#x %#x then %#x: got %d in %d reads", r1, r2, sent, got, reads), map[string]interface{}{"n": n, "words": []uint32{r1, r2, sent}})
				}
			}
		}
		// long runs of rejected words: every one must be redrawn, however many
		if len(rej) > 0 {
			for _, k := range c01RunLengths {
				ws := make([]uint32, k+2)
				for i := 0; i < k; i++ {
					ws[i] = rej[(i*7)%len(rej)]
				}
				ws[k], ws[k+1] = sent, sent
				got, used, ok := drawLong(n, ws, 0)
				c.Count("continuation_runs", 1)
				c.Count("long_reject_runs", 1)
				if !ok || used != k+1 || got != sentRes {
					c.Violation(fmt.Sprintf("n=%d long-run", n), fmt.Sprintf("%d rejected words followed by %#x: result %d after consuming %d words; every rejected word must be redrawn (expected %d after %d words)", k, sent, got, used, sentRes, k+1),
						map[string]interface{}{"n": n, "rejected_run": k, "rejected_word": ws[0], "then": sent})
					break
				}
			}
		}
		rd.reads = 0
		rand.Reader = rd
		if c.Shard == 0 {
			c.Sample(map[string]interface{}{"n": n, "first_word_range": "0..2^32-1 (16 shards)", "sentinel_second_word": sent})
		}
	}
	c01Boundary(c, draw)
	c01SweepSites(c)
	// "whenever a generator picks one of n alternatives (a position, a coin
	// flip)": every alternative must be selectable. The single-deviation
	// coverage exploration of C04 for the capitalisation choices of long
	// recipes (a coin or a position whose alternative no raw word selects).
	tape.Reset()
	tape.Install(nil)
	// ... and a word out of a list too long for 16-bit index arithmetic
	hugeN := []int{70000}
	if c.Thorough() {
		hugeN = []int{65537, 70000, 100003}
	}
	for _, n := range hugeN {
		if c.Mine() {
			c04Huge(c, n, 2)
		}
		if c.Mine() {
			c04Huge(c, n, 3)
		}
	}
	for _, L := range []int{17, 33, 65, 130} {
		for _, cp := range []string{"random", "one"} {
			for _, ws := range [][]string{{"ab"}, {"ab", "cd", "efg"}} {
				if c.Mine() {
					c04Coverage(c, WLCase{Words: ws, Length: L, Cap: cp, Sep: Sep{Kind: "none"}})
				}
			}
		}
	}
}

// c01Sentinel finds a word that the draw with bound n accepts on its own (a
// rejection sampler may reject at either end of the range, so small words are
// tried first and then words spread over the whole range).
func c01Sentinel(draw func(n uint32, w0, w1, w2 uint32) (uint32, int, bool), n uint32) (sent, sentRes uint32, found bool) {
	cands := []uint32{1, 0, 2, 3, 1<<32 - 2, 1 << 31, 1<<31 - 1}
	for i := uint32(1); i < 64; i++ {
		cands = append(cands, i<<26+i)
	}
	for _, cand := range cands {
		r, reads, p := draw(n, cand, cand, cand)
		if !p && reads == 1 {
			return cand, r, true
		}
	}
	return 0, 0, false
}

// second layer: many more bounds on a boundary word set, necessary conditions
// only; any disagreement with the textbook sampler is reported as a note (a
// candidate for a full sweep), not as a violation.
func c01Boundary(c *core.Ctx, draw func(n uint32, w0, w1, w2 uint32) (uint32, int, bool)) {
	var bounds []uint32
	maxSmall := uint32(1 << 12)
	if c.Thorough() {
		maxSmall = 1 << 16
	}
	for n := uint32(1); n <= maxSmall; n++ {
		bounds = append(bounds, n)
	}
	for k := uint(4); k <= 32; k++ {
		for d := uint64(0); d <= 8; d++ {
			for _, v := range []uint64{1<<k - d, 1<<k + d} {
				if v >= 1 && v < 1<<32 && v > uint64(maxSmall) {
					bounds = append(bounds, uint32(v))
				}
			}
		}
	}
	for _, n := range bounds {
		if !c.Mine() {
			continue
		}
		K := (uint64(1) << 32) / uint64(n)
		words := map[uint32]bool{}
		lim := uint64(2 * uint64(n))
		if lim > 512 {
			lim = 512
		}
		for w := uint64(0); w < lim; w++ {
			words[uint32(w)] = true
			words[uint32(1<<32-1-w)] = true
			words[uint32(K*uint64(n)-1-w)] = true
			words[uint32((K*uint64(n)+w)&(1<<32-1))] = true
		}
		for j := uint(0); j < 32; j++ {
			q := uint64(1) << j
			for _, v := range []uint64{q*uint64(n) - 1, q * uint64(n), q*uint64(n) + 1} {
				if v < 1<<32 {
					words[uint32(v)] = true
				}
			}
		}
		perOutcome := map[uint32]uint64{}
		sent, sentRes, sentOK := c01Sentinel(draw, n)
		if !sentOK {
			c.Violation(fmt.Sprintf("boundary n=%d no-accepted-sentinel", n), "none of 70 candidate words spread over the 32-bit range is accepted in one read", map[string]interface{}{"n": n})
			continue
		}
		for w := range words {
			res, reads, p := draw(n, w, sent, sent)
			c.Count("boundary_runs", 1)
			if p {
				c.Violation(fmt.Sprintf("boundary n=%d panic", n), fmt.Sprintf("word %#x panicked", w), map[string]interface{}{"n": n, "words": []uint32{w, sent, sent}})
				continue
			}
			if res >= n {
				c.Violation(fmt.Sprintf("boundary n=%d out-of-range", n), fmt.Sprintf("word %#x gave %d", w, res), map[string]interface{}{"n": n, "words": []uint32{w, sent, sent}})
				continue
			}
			if reads == 1 {
				perOutcome[res]++
				if perOutcome[res] > K {
					c.Violation(fmt.Sprintf("boundary n=%d overfull", n), fmt.Sprintf("outcome %d is produced by more than floor(2^32/n)=%d accepted words", res, K), map[string]interface{}{"n": n, "words": []uint32{w, sent, sent}})
				}
			} else if sentOK && reads == 2 && res != sentRes {
				c.Violation(fmt.Sprintf("boundary n=%d not-redrawn", n), fmt.Sprintf("rejected word %#x then %#x gave %d, %#x alone gives %d", w, sent, res, sent, sentRes), map[string]interface{}{"n": n, "words": []uint32{w, sent, sent}})
			}
			// textbook comparison: promotes, never convicts
			var tb uint32
			tbReads := 1
			if uint64(w) >= K*uint64(n) {
				tb, tbReads = sent%n, 2
			} else {
				tb = w % n
			}
			if tb != res || tbReads != reads {
				c.Count("boundary_textbook_disagreements", 1)
				c.Note("bound %d disagrees with the textbook sampler on word %#x: candidate for a full sweep", n, w)
			}
		}
		// the draw must use all 32 bits of a word however the source chunks it
		for _, w := range []uint32{0x01020304, 0xfffefdfc, 0x80000001, uint32(K*uint64(n)) - 1, 0x00010000, 0x00000100} {
			want, used0, ok0 := drawLong(n, []uint32{w, sent, sent, sent}, 0)
			for _, chunk := range []int{1, 2, 3} {
				got, used, ok := drawLong(n, []uint32{w, sent, sent, sent}, chunk)
				c.Count("boundary_runs", 1)
				c.Count("chunked_draws", 1)
				if ok0 && (!ok || got != want || used != used0) {
					c.Violation(fmt.Sprintf("boundary n=%d chunked", n), fmt.Sprintf("word %#x delivered %d byte(s) per read gives %d (%d words used); delivered whole it gives %d (%d words)", w, chunk, got, used, want, used0),
						map[string]interface{}{"n": n, "words": []uint32{w, sent, sent, sent}, "chunk": chunk})
				}
			}
		}
		c.Count("boundary_bounds", 1)
	}
}

func c01Prepare(tier string) ([]string, func(), error) {
	dir, err := os.MkdirTemp("/dev/shm", "verif-c01-")
	if err != nil {
		return nil, nil, err
	}
	for _, n := range c01Bounds(tier) {
		mem, err := mmapFile(filepath.Join(dir, fmt.Sprintf("hist-%d", n)), c01FileSize(n), true)
		if err != nil {
			os.RemoveAll(dir)
			return nil, nil, err
		}
		syscall.Munmap(mem)
	}
	return []string{"VERIF_C01_DIR=" + dir}, func() { os.RemoveAll(dir) }, nil
}

func c01Finish(m *core.Merged) {
	dir := c01Dir()
	ents, _ := os.ReadDir(dir)
	var swept []string
	for _, e := range ents {
		if !strings.HasPrefix(e.Name(), "hist-") {
			continue
		}
		n64, _ := strconv.ParseUint(strings.TrimPrefix(e.Name(), "hist-"), 10, 32)
		n := uint32(n64)
		mem, err := mmapFile(filepath.Join(dir, e.Name()), c01FileSize(n), false)
		if err != nil {
			m.Incomplete = append(m.Incomplete, fmt.Sprintf("cannot read histogram for n=%d: %v", n, err))
			continue
		}
		words := asWords(mem)
		hdr := words[len(words)-16:]
		rejected := *(*uint64)(unsafe.Pointer(&hdr[0]))
		sweptWords := *(*uint64)(unsafe.Pointer(&hdr[2]))
		if sweptWords != 1<<32 {
			m.Incomplete = append(m.Incomplete, fmt.Sprintf("n=%d: only %d of 2^32 first words swept (deadline)", n, sweptWords))
			syscall.Munmap(mem)
			continue
		}
		width := uint(c01Width(n))
		c0 := getField(words, 0, width)
		ok := true
		var badIdx uint64
		var badVal uint64
		start := uint64(0)
		if width < 32 {
			// packed fields: compare whole 32-bit words against the pattern
			per := uint64(32 / width)
			var pat uint32
			for k := uint64(0); k < per; k++ {
				pat |= uint32(c0) << (uint(k) * width)
			}
			full := uint64(n) / per
			wi := uint64(0)
			for ; wi < full; wi++ {
				if words[wi] != pat {
					break
				}
			}
			start = wi * per // the first mismatching word (or the tail) is examined field by field
		}
		for i := start; i < uint64(n); i++ {
			if v := getField(words, i, width); v != c0 {
				ok = false
				badIdx, badVal = i, v
				break
			}
		}
		syscall.Munmap(mem)
		accepted := c0 * uint64(n)
		m.Counters["histogram_cells_compared"] += int64(n)
		m.Counters["bounds_fully_swept"]++
		m.Counters["states"] += int64(n) + 1 // outcomes + "rejected"
		switch {
		case !ok:
			m.NViol++
			m.Violations = append(m.Violations, core.Violation{Key: fmt.Sprintf("n=%d non-uniform", n),
				Msg:    fmt.Sprintf("outcome 0 is selected by %d words but outcome %d by %d (of all 2^32 first words)", c0, badIdx, badVal),
				Replay: map[string]interface{}{"n": n, "sweep": true}})
		case c0 == 0:
			m.NViol++
			m.Violations = append(m.Violations, core.Violation{Key: fmt.Sprintf("n=%d no-accept", n), Msg: "no word is accepted", Replay: map[string]interface{}{"n": n, "sweep": true}})
		case accepted+rejected != 1<<32 && m.Counters["bad_words"] == 0:
			m.NViol++
			m.Violations = append(m.Violations, core.Violation{Key: fmt.Sprintf("n=%d accounting", n), Msg: fmt.Sprintf("accepted %d + rejected %d != 2^32", accepted, rejected), Replay: map[string]interface{}{"n": n, "sweep": true}})
		case rejected >= 1<<31:
			m.NViol++
			m.Violations = append(m.Violations, core.Violation{Key: fmt.Sprintf("n=%d half-rejected", n), Msg: fmt.Sprintf("%d of 2^32 words are rejected (not fewer than half)", rejected), Replay: map[string]interface{}{"n": n, "sweep": true}})
		}
		swept = append(swept, fmt.Sprintf("%d(c=%d,rej=%d)", n, c0, rejected))
		m.Outcomes[fmt.Sprintf("n=%d c=%d rej=%d", n, c0, rejected)] = true
	}
	c01FinishSites(m)
	sort.Strings(swept)
	m.Notes = append(m.Notes, "fully swept bounds n(count per outcome, rejected words): "+strings.Join(swept, " "))
}

func init() {
	Register(&core.Check{
		ID:    "C01",
		Level: "model_checking",
		Rule: "for each bound n of the tier's list every one of the 2^32 values of the first random word is fed to the real randomUint32n via crypto/rand.Read on a scripted reader (second word: an accepted sentinel); " +
			"a case is a (n, first word) pair, distinct_nontrivial counts distinct (n, per-outcome count, rejected) triples, one per fully swept bound; runs of up to 100000 rejected words; second layer: boundary word sets and 1/2/3-byte chunked delivery for every n<=2^12 (thorough 2^16) and 2^k±d; add-on: single-deviation coverage of capitalisation choices in long recipes and of every word of a 70000-word list (thorough also 65537, 100003) at each position, with the pigeonhole bound on the announced draws",
		Assume:      []string{"go1.23.5 crypto/rand.Read = io.ReadFull(rand.Reader, b)", "uniformity is decided only for the bounds listed in coverage.notes; other bounds get the boundary layer (necessary conditions only)"},
		Run:         c01Run,
		Prepare:     c01Prepare,
		Finish:      c01Finish,
		StatesKey:   "states",
		TransKey:    "executions",
		TracesKey:   "executions",
		DistinctKey: "bounds_fully_swept",
	})
	// replay: a recorded coverage case is re-explored in this process; a
	// recorded (n, words) case is shown as a transcript of the real draw, and
	// the verdict is taken from a fresh full run of the check restricted to
	// that bound (all 2^32 first words, all layers) in a scratch root.
	var cached *struct {
		desc string
		bad  bool
	}
	Replayers["C01"] = func(raw json.RawMessage) (string, bool) {
		var rp struct {
			Case  *WLCase  `json:"case"`
			N     uint32   `json:"n"`
			Site  *int     `json:"site"`
			Words []uint32 `json:"words"`
			Chunk int      `json:"chunk"`
		}
		json.Unmarshal(raw, &rp)
		if rp.Case != nil {
			c := &core.Ctx{ID: "C01", Tier: "quick", NShards: 1}
			tape.Reset()
			tape.Install(nil)
			for r := uint32(0); r < uint32(len(rp.Case.Words)) && len(rp.Case.Words) > 300; r++ {
				cal.Rep(uint32(len(rp.Case.Words)), r)
			}
			c04Coverage(c, *rp.Case)
			msg := ""
			if len(c.R.Violations) > 0 {
				msg = c.R.Violations[0].Msg
			}
			return fmt.Sprintf("coverage case Length %d, %d words: %d violation(s) %s", rp.Case.Length, len(rp.Case.Words), c.R.NViol, msg), c.R.NViol > 0
		}
		if cached != nil {
			return cached.desc, cached.bad
		}
		desc := ""
		if len(rp.Words) > 0 {
			spg.VerifDrawHook = nil
			res, used, ok := drawLong(rp.N, append(append([]uint32{}, rp.Words...), rp.Words[len(rp.Words)-1], rp.Words[len(rp.Words)-1]), rp.Chunk)
			desc = fmt.Sprintf("draw with bound %d on words %#x (chunk %d): result %d, %d words consumed, completed=%v; ", rp.N, rp.Words, rp.Chunk, res, used, ok)
		}
		tmp, err := os.MkdirTemp("", "verif-c01-replay-")
		if err != nil {
			return err.Error(), false
		}
		defer os.RemoveAll(tmp)
		exe, _ := os.Executable()
		cmd := exec.Command(exe, "C01", "--tier", "quick")
		cmd.Env = append(os.Environ(), "VERIF_ROOT="+tmp, "VERIF_C01_BOUNDS="+strconv.FormatUint(uint64(rp.N), 10), "VERIF_IN_REPLAY=1")
		if rp.Site != nil {
			cmd.Env = append(cmd.Env, "VERIF_C01_SWEEP_SITE="+strconv.Itoa(*rp.Site))
		}
		out, _ := cmd.CombinedOutput()
		nv := strings.Count(string(out), "VIOLATION property=C01")
		first := ""
		if b, err := os.ReadFile(filepath.Join(tmp, "replays", "C01", "quick-1.json")); err == nil {
			var f struct {
				Key string `json:"key"`
				Msg string `json:"msg"`
			}
			json.Unmarshal(b, &f)
			first = f.Key + ": " + f.Msg
		}
		desc += fmt.Sprintf("full sweep of bound %d re-run: %d violation(s) %s", rp.N, nv, first)
		cached = &struct {
			desc string
			bad  bool
		}{desc, nv > 0}
		return desc, nv > 0
	}
}
