package checks

import (
	"crypto/rand"
	"fmt"
	"os"
	"sort"
	"strings"
	"time"

	"go.1password.io/spg"
	"verif/harness/core"
	"verif/harness/tape"
)

// ---------- C01, third layer: the places where a generator picks ----------
//
// The sweep of the bounded-draw primitive says nothing about a generator that
// picks "one of n alternatives" some other way (a coin decided by the sign of
// a raw word, a position taken from the high bits). This layer takes one
// generation per kind of pick - a character, a word, a capitalisation coin, a
// capitalised position, a separator character - arranged so that exactly one
// random word of the generation decides the result, and feeds ALL 2^32 values
// of that word to the real Generate. Every alternative must be returned for
// exactly the same number of values; values that make the generation read
// more words (rejected and redrawn) are counted apart and must be fewer than
// half.
//
// quick tier: the full sweep of a site is run only when a cheap test on a
// boundary menu of words shows that the site does not simply follow the
// (already swept) primitive: the site's read is not announced, its bound is not
// the number of alternatives, or two words that the primitive maps to the same
// outcome give different passwords. thorough tier: every site is swept.

type c01Site struct {
	Name string
	Alts int
	Gen  func() (*spg.Password, error)
}

func c01Sites() []c01Site {
	wl := func(w WLCase) func() (*spg.Password, error) {
		r, err := w.build()
		if err != nil {
			panic(err)
		}
		return r.Generate
	}
	cr := spg.CharRecipe{Length: 1, AllowChars: "abc"}
	return []c01Site{
		{"coin of the random capitalisation scheme", 2, wl(WLCase{Words: []string{"ab"}, Length: 1, Cap: "random", Sep: Sep{Kind: "none"}})},
		{"word out of a 3-word list", 3, wl(WLCase{Words: []string{"ab", "cd", "efg"}, Length: 1, Cap: "none", Sep: Sep{Kind: "none"}})},
		{"capitalised position of scheme one, 3 words", 3, wl(WLCase{Words: []string{"ab"}, Length: 3, Cap: "one", Sep: Sep{Kind: "none"}})},
		{"character out of a 3-character alphabet", 3, cr.Generate},
		{"digit separator (SFDigits1)", 10, wl(WLCase{Words: []string{"ab"}, Length: 2, Cap: "none", Sep: Sep{Kind: "SFDigits1"}})},
	}
}

// siteReader serves a fixed list of words, then a sentinel word for ever
// (bounded: a generation that never stops reading is stopped).
type siteReader struct {
	words []uint32
	sent  uint32
	pos   int // bytes served
}

func (r *siteReader) Read(p []byte) (int, error) {
	for i := range p {
		wi := r.pos >> 2
		var w uint32
		if wi < len(r.words) {
			w = r.words[wi]
		} else {
			if wi > len(r.words)+4096 {
				panic("verif: generation does not stop reading")
			}
			w = r.sent
		}
		p[i] = byte(w >> (24 - 8*uint(r.pos&3)))
		r.pos++
	}
	return len(p), nil
}

var c01SiteMenu = func() []uint32 {
	m := []uint32{}
	for i := uint32(0); i < 40; i++ {
		m = append(m, i, 1<<31-20+i, 1<<31+i, 1<<32-1-i)
	}
	for k := uint(2); k < 32; k++ {
		m = append(m, 1<<k, 1<<k+1, 1<<k+2, 1<<k-1)
	}
	m = append(m, 0x55555555, 0xaaaaaaaa, 0x12345678, 0xfedcba98, 0x80000002, 0x7ffffffe)
	return m
}()

type c01SitePlan struct {
	site     c01Site
	base     []uint32 // accepted words, one per read of the baseline generation
	idx      int      // the read that decides the result
	bound    uint32   // announced bound of that read (0: not announced)
	promote  string   // why the full sweep is needed ("" = follows the primitive)
	undecide string   // why the site cannot be judged at all
}

// c01PlanSite finds the baseline tape and the deciding read of one site.
func c01PlanSite(s c01Site) c01SitePlan {
	pl := c01SitePlan{site: s}
	// the primitive on a scripted tape: (outcome, words read, panicked)
	draw := func(n uint32, w0, w1, w2 uint32) (uint32, int, bool) {
		saved := curTape()
		defer install(saved)
		res, reads, ok := drawOnce(n, w0, w1, w2, w2, w2, w2, w2, w2)
		return res, reads, !ok
	}
	// the reads of a generation on an all-ones tape; then every word is
	// replaced by one that its draw accepts at once
	first := make([]uint32, 64)
	for i := range first {
		first[i] = 1
	}
	outA, tA := runScript(s.Gen, first)
	if !outA.HasPw || tA.Words > 60 {
		pl.undecide = "baseline generation failed or reads more than 60 words: " + outA.Err + outA.Panic
		return pl
	}
	base := []uint32{}
	for _, d := range tA.Log {
		if d.Cont {
			continue
		}
		w := uint32(1)
		if d.Announced && d.Bound > 0 {
			if sw, _, ok := c01Sentinel(draw, d.Bound); ok {
				w = sw
			}
		}
		base = append(base, w)
	}
	if len(base) == 0 {
		pl.undecide = "the generation reads no random word"
		return pl
	}
	last := base[len(base)-1]
	outB, tB := runScript(s.Gen, append(append([]uint32{}, base...), last, last, last, last))
	if !outB.HasPw || tB.Words != len(base) {
		pl.undecide = "no baseline tape without redraws found"
		return pl
	}
	for _, d := range tB.Log {
		if d.Cont {
			pl.undecide = "no baseline tape without redraws found"
			return pl
		}
	}
	lg := tB.Log
	// trim to the reads actually made
	out0 := outB
	// the deciding read: the only one whose value changes the password
	deciding := []int{}
	for j := range base {
		changed := false
		for _, w := range c01SiteMenu[:80] {
			b2 := append([]uint32{}, base...)
			b2[j] = w
			b2 = append(b2, base[len(base)-1], base[len(base)-1], base[len(base)-1])
			o, t := runScript(s.Gen, b2)
			if t.Words == len(base) && o.HasPw && o.Str != out0.Str {
				changed = true
				break
			}
		}
		if changed {
			deciding = append(deciding, j)
		}
	}
	if len(deciding) != 1 {
		pl.undecide = fmt.Sprintf("%d reads of the generation change the password (expected exactly one)", len(deciding))
		return pl
	}
	pl.base, pl.idx = base, deciding[0]
	k := 0
	for _, d := range lg {
		if d.Cont {
			continue
		}
		if k == pl.idx {
			if d.Announced {
				pl.bound = d.Bound
			}
			break
		}
		k++
	}
	// does the site simply follow the primitive?
	switch {
	case pl.bound == 0:
		pl.promote = "the deciding read is not an announced bounded draw"
	case int(pl.bound) != s.Alts:
		pl.promote = fmt.Sprintf("the deciding draw has bound %d, the site has %d alternatives", pl.bound, s.Alts)
	default:
		sent := base[len(base)-1]
		byRes := map[uint32]string{}
		for _, w := range c01SiteMenu {
			res, reads, p := draw(pl.bound, w, sent, sent)
			b2 := append([]uint32{}, base...)
			b2[pl.idx] = w
			b2 = append(b2, sent, sent, sent)
			o, t := runScript(s.Gen, b2)
			accepted := t.Words == len(base)
			if p || (reads == 1) != accepted || !o.HasPw {
				pl.promote = fmt.Sprintf("word %#x: the primitive reads %d word(s), the generation %d more than its baseline", w, reads, t.Words-len(base))
				break
			}
			if !accepted {
				continue
			}
			if prev, ok := byRes[res]; ok && prev != o.Str {
				pl.promote = fmt.Sprintf("the primitive maps word %#x to outcome %d, which gave %q before and gives %q now", w, res, prev, o.Str)
				break
			}
			byRes[res] = o.Str
		}
	}
	return pl
}

// c01SweepSites runs this shard's part of the site layer.
func c01SweepSites(c *core.Ctx) {
	tape.Reset()
	tape.Install(nil)
	forced := os.Getenv("VERIF_C01_SWEEP_SITE") // replays only
	total := uint64(1) << 32
	lo := total / uint64(c.NShards) * uint64(c.Shard)
	hi := total / uint64(c.NShards) * uint64(c.Shard+1)
	if c.Shard == c.NShards-1 {
		hi = total
	}
	budget := 2 // quick: at most two promoted sites are swept
	for si, s := range c01Sites() {
		pl := c01PlanSite(s)
		key := fmt.Sprintf("site %d", si)
		if c.Shard == 0 {
			c.Count("sites_planned", 1)
		}
		if pl.undecide != "" {
			c.Incomplete("%s (%s): %s", key, s.Name, pl.undecide)
			continue
		}
		if forced != "" && forced != fmt.Sprint(si) {
			continue
		}
		if !c.Thorough() && forced == "" {
			if pl.promote == "" {
				if c.Shard == 0 {
					c.Count("sites_following_the_primitive", 1)
					c.Sample(map[string]interface{}{"site": s.Name, "deciding_read": pl.idx, "bound": pl.bound, "menu_words": len(c01SiteMenu), "verdict": "every menu word gives the password of the primitive's outcome; full sweep left to the thorough tier"})
				}
				continue
			}
			if budget == 0 {
				c.Incomplete("%s (%s) needs a full sweep (%s); not run in the quick tier beyond two sites", key, s.Name, pl.promote)
				continue
			}
			budget--
		}
		if c.Expired() {
			c.Incomplete("deadline: %s not swept by shard %d", key, c.Shard)
			continue
		}
		if c.Shard == 0 && pl.promote != "" {
			c.Note("%s (%s) swept in full: %s", key, s.Name, pl.promote)
		}
		// the sweep proper: a lean reader, hooks off
		tape.Reset()
		spg.VerifDrawHook = nil
		spg.VerifCanonHook = nil
		words := append([]uint32{}, pl.base...)
		rd := &siteReader{words: words, sent: pl.base[len(pl.base)-1]}
		rand.Reader = rd
		counts := map[string]uint64{}
		var redrawn, failed, panics uint64
		from := lo
		// a site whose generation is slow (a character recipe builds its
		// alphabet with set operations on every call) cannot be swept in
		// reasonable time: each site gets a time limit, and a site that
		// hits it is reported as not decided
		siteStart, timedOut, sweptTo := time.Now(), false, hi
		siteLimit := 10 * time.Minute
		if !c.Thorough() {
			siteLimit = 6 * time.Minute
		}
		// outcomes are named after the first menu word that produces them,
		// not after the password itself: a word list keeps its words in an
		// order that differs from one construction (worker process) to the
		// next, so "index 0" is another word in every shard, and histograms
		// keyed by the word would not add up
		label := map[string]string{}
		func() {
			defer func() { recover() }()
			for _, mw := range c01SiteMenu {
				words[pl.idx] = mw
				rd.pos = 0
				p, err := s.Gen()
				if err != nil || p == nil || rd.pos > 4*len(words) {
					continue
				}
				if _, ok := label[p.String()]; !ok {
					label[p.String()] = fmt.Sprintf("the alternative selected by word %#x", mw)
				}
			}
		}()
		// estimate first: 2000 calls
		{
			est0 := time.Now()
			estN := 1
			func() {
				defer func() { recover() }()
				for i := 0; i < 20000 && (i < 2000 || time.Since(est0) < time.Second); i++ {
					words[pl.idx] = uint32(i * 2654435)
					rd.pos = 0
					s.Gen()
					estN++
				}
			}()
			perCall := time.Since(est0) / time.Duration(estN)
			// (generous: the estimate is noisy, and the loop below stops at
			// the limit anyway)
			if need := perCall * time.Duration(hi-lo); need > 3*siteLimit {
				tape.Reset()
				tape.Install(nil)
				c.Incomplete("%s (%s): one generation takes %v, a sweep of all 2^32 values of the deciding word would take this shard %v (limit %v): not swept; the site was compared with the primitive on the %d-word menu only (%s)", key, s.Name, perCall, need.Round(time.Second), siteLimit, len(c01SiteMenu), map[bool]string{true: "it follows the primitive there", false: "it does NOT follow the primitive there: " + pl.promote}[pl.promote == ""])
				if c.Shard == 0 {
					c.Count("sites_too_slow_to_sweep", 1)
				}
				continue
			}
		}
		step := func() {
			defer func() {
				if x := recover(); x != nil {
					panics++
					if panics <= 2 {
						c.Violation(key+" panic", fmt.Sprintf("%s: word %#x at read %d: %v", s.Name, words[pl.idx], pl.idx, x), map[string]interface{}{"n": 0, "site": si, "word": words[pl.idx]})
					}
					from = uint64(words[pl.idx]) + 1
				}
			}()
			for w := from; w < hi; w++ {
				if w&0xffff == 0 && time.Since(siteStart) > siteLimit {
					timedOut = true
					sweptTo = w
					from = hi
					return
				}
				words[pl.idx] = uint32(w)
				rd.pos = 0
				p, err := s.Gen()
				if err != nil || p == nil {
					failed++
					continue
				}
				if rd.pos > 4*len(words) {
					redrawn++
					continue
				}
				o := p.String()
				if l, ok := label[o]; ok {
					counts[l]++
				} else {
					counts["an alternative no menu word selects: "+o]++
				}
			}
			from = hi
		}
		for from < hi && panics < 64 {
			step()
		}
		tape.Reset()
		tape.Install(nil)
		if timedOut {
			c.Incomplete("%s (%s): the sweep of this shard stopped at its time limit after %d of %d values", key, s.Name, sweptTo-lo, hi-lo)
		}
		c.Count("executions", int64(sweptTo-lo))
		c.Count("site_executions", int64(sweptTo-lo))
		c.Count(fmt.Sprintf("site|%d|swept", si), int64(sweptTo-lo))
		c.Count(fmt.Sprintf("site|%d|redrawn", si), int64(redrawn))
		c.Count(fmt.Sprintf("site|%d|failed", si), int64(failed+panics))
		for k, v := range counts {
			c.Count(fmt.Sprintf("site|%d|out|%s", si, k), int64(v))
		}
	}
}

// c01FinishSites judges the merged site histograms.
func c01FinishSites(m *core.Merged) {
	sites := c01Sites()
	for si, s := range sites {
		swept := m.Counters[fmt.Sprintf("site|%d|swept", si)]
		if swept == 0 {
			continue
		}
		key := fmt.Sprintf("site %d", si)
		if uint64(swept) != 1<<32 {
			m.Incomplete = append(m.Incomplete, fmt.Sprintf("%s (%s): only %d of 2^32 words swept", key, s.Name, swept))
			continue
		}
		redrawn := m.Counters[fmt.Sprintf("site|%d|redrawn", si)]
		failed := m.Counters[fmt.Sprintf("site|%d|failed", si)]
		prefix := fmt.Sprintf("site|%d|out|", si)
		outs := []string{}
		for k := range m.Counters {
			if strings.HasPrefix(k, prefix) {
				outs = append(outs, k)
			}
		}
		sort.Strings(outs)
		desc := []string{}
		for _, k := range outs {
			desc = append(desc, fmt.Sprintf("%q:%d", strings.TrimPrefix(k, prefix), m.Counters[k]))
		}
		summary := fmt.Sprintf("%s: %s; redrawn %d, failed %d", s.Name, strings.Join(desc, " "), redrawn, failed)
		bad := ""
		switch {
		case failed != 0:
			bad = fmt.Sprintf("%d values of the deciding word make the generation fail", failed)
		case len(outs) != s.Alts:
			bad = fmt.Sprintf("%d distinct results for %d alternatives", len(outs), s.Alts)
		case redrawn >= 1<<31:
			bad = fmt.Sprintf("%d of 2^32 values are redrawn (not fewer than half)", redrawn)
		default:
			c0 := m.Counters[outs[0]]
			for _, k := range outs {
				if m.Counters[k] != c0 {
					bad = "the alternatives are not selected by the same number of values"
				}
			}
		}
		m.Counters["sites_fully_swept"]++
		m.Counters["states"] += int64(len(outs)) + 1
		m.Outcomes["site "+summary] = true
		m.Notes = append(m.Notes, "site swept over all 2^32 values of its deciding word - "+summary)
		if bad != "" {
			m.NViol++
			m.Violations = append(m.Violations, core.Violation{Key: key + " non-uniform", Msg: s.Name + ": " + bad + " (" + summary + ")",
				Replay: map[string]interface{}{"site": si, "sweep": true}})
		}
		for _, k := range outs {
			delete(m.Counters, k)
		}
	}
}
