package checks

import (
	"encoding/json"
	"fmt"
	"math"
	"math/big"
	"sort"
	"strings"

	"go.1password.io/spg"
	"verif/harness/core"
	"verif/harness/ref"
)

// ---------- C02: character passwords uniform over exactly the valid strings ----------

// é (c3 a9), è (c3 a8) share their lead byte, é and ĩ (c4 a9) their trail byte
var customStrings = []string{"", "a", "ab", "abc", "aab", "bc", "é", "éè", "éa", "éaé", "c", "b1", "1", "ĩé"}

func c02Recipes(tier string) []ref.CharRecipe {
	var out []ref.CharRecipe
	strs := customStrings
	if tier == "quick" {
		strs = strs[:8]
	}
	_ = strs
	maxSets := 2
	lengths := []int{1, 2, 3}
	var reqLists [][]string
	reqLists = append(reqLists, nil)
	for _, a := range strs[1:] {
		reqLists = append(reqLists, []string{a})
	}
	for _, a := range strs {
		for _, b := range strs {
			if a == "" && b == "" {
				continue
			}
			reqLists = append(reqLists, []string{a, b})
		}
	}
	if tier == "thorough" && maxSets < 3 {
		for _, a := range strs[1:6] {
			for _, b := range strs[1:6] {
				for _, c := range strs[1:6] {
					reqLists = append(reqLists, []string{a, b, c})
				}
			}
		}
	}
	for _, L := range lengths {
		for _, al := range strs {
			for _, ex := range strs {
				for _, rq := range reqLists {
					out = append(out, ref.CharRecipe{Length: L, AllowChars: al, ExcludeChars: ex, RequireSets: rq})
				}
			}
		}
	}
	// class flags interacting with the custom '1' (a Digit and Ambiguous)
	for _, L := range []int{1, 2} {
		for _, ex := range []uint32{ref.Ambiguous, ref.Digits} {
			for _, al := range []string{"ab1", "a1", "1"} {
				for _, rq := range [][]string{nil, {"1"}, {"a1"}, {"a", "1"}} {
					out = append(out, ref.CharRecipe{Length: L, AllowChars: al, Exclude: ex, RequireSets: rq})
				}
			}
		}
	}
	// requirements on multi-byte characters that share UTF-8 bytes with other alphabet members
	for _, L := range []int{1, 2, 3} {
		for _, al := range []string{"è", "èê", "ĩ", "èĩa"} {
			for _, rq := range [][]string{{"é"}, {"é", "è"}, {"éa"}, {"ĩ"}} {
				out = append(out, ref.CharRecipe{Length: L, AllowChars: al, RequireSets: rq})
			}
		}
	}
	// long passwords over a two-character alphabet with a requirement: the
	// complete first-candidate cell (2^16 leaves) plus the retries of its
	// rejected candidates (behaviour that only starts at a length threshold)
	out = append(out,
		ref.CharRecipe{Length: 12, AllowChars: "a", RequireSets: []string{"0"}},
		ref.CharRecipe{Length: 8, AllowChars: "ab", RequireSets: []string{"0"}},
	)
	if tier == "thorough" {
		out = append(out,
			ref.CharRecipe{Length: 16, AllowChars: "a", RequireSets: []string{"0"}},
			ref.CharRecipe{Length: 17, AllowChars: "a", RequireSets: []string{"0"}},
			ref.CharRecipe{Length: 18, AllowChars: "a", RequireSets: []string{"0"}},
			ref.CharRecipe{Length: 20, AllowChars: "a", RequireSets: []string{"0"}},
			ref.CharRecipe{Length: 11, AllowChars: "ab", RequireSets: []string{"0"}},
			ref.CharRecipe{Length: 8, AllowChars: "abc", RequireSets: []string{"0", "a"}},
		)
	}
	// class-sized cells
	out = append(out,
		ref.CharRecipe{Length: 1, Allow: ref.Digits},
		ref.CharRecipe{Length: 2, Allow: ref.Digits},
		ref.CharRecipe{Length: 3, Allow: ref.Digits},
		ref.CharRecipe{Length: 2, Allow: ref.Digits | ref.Symbols},
		ref.CharRecipe{Length: 2, Allow: ref.All, Exclude: ref.Ambiguous},
		ref.CharRecipe{Length: 1, Allow: ref.All, Exclude: ref.Ambiguous},
		ref.CharRecipe{Length: 2, Allow: ref.Symbols, Require: ref.Digits},
		ref.CharRecipe{Length: 2, Allow: ref.Digits, Require: ref.Digits, AllowChars: "00"},
		ref.CharRecipe{Length: 2, Allow: ref.Symbols, Exclude: ref.Ambiguous, RequireSets: []string{"0123"}},
		ref.CharRecipe{Length: 1, Allow: ref.All},
		ref.CharRecipe{Length: 1, Allow: ref.Letters, Require: ref.Digits},
	)
	if tier == "thorough" {
		out = append(out,
			ref.CharRecipe{Length: 4, Allow: ref.Digits},
			ref.CharRecipe{Length: 3, Allow: ref.Digits | ref.Symbols},
			ref.CharRecipe{Length: 3, Allow: ref.Symbols, Require: ref.Digits},
			ref.CharRecipe{Length: 2, Allow: ref.All},
			ref.CharRecipe{Length: 3, Allow: ref.Digits, Exclude: ref.Ambiguous, RequireSets: []string{"23", "34"}},
		)
	}
	return out
}

// charCell explores the complete cell of a character recipe to `attempts`
// candidate depths and returns the exact distribution.
func charCell(r ref.CharRecipe, attempts int, maxLeaves int64) (*Dist, CellStats) {
	sr := toSpg(r)
	d := newDist()
	ab := r.Alphabet()
	st := exploreCell(sr.Generate, CellOpt{DepthCut: attempts * r.Length, Fallback: uint32(len(ab)), MaxMenu: 4096, MaxLeaves: maxLeaves, Dev: -1}, func(l *Leaf) { d.add(l) })
	return d, st
}

// c02Recipe decides C02 for one recipe; returns false if the recipe is refused.
func c02Recipe(c *core.Ctx, r ref.CharRecipe) {
	sr := toSpg(r)
	ab := r.Alphabet()
	lit := recipeLit(r)
	// probe: does Generate accept the recipe at all?
	probe, pt := runScript(sr.Generate, nil)
	if !probe.HasPw && probe.Panic == "" && pt.Words == 0 && !pt.Dry {
		c.Count("recipes_refused", 1)
		return
	}
	if probe.Panic != "" && pt.Words == 0 && !pt.Dry {
		c.Count("recipes_panicking_before_any_draw", 1) // C13's verdict
		return
	}
	count := r.Count()
	N := int64(len(ab))
	cell := new(big.Int).Exp(big.NewInt(N), big.NewInt(int64(r.Length)), nil)
	attempts := 2
	if c.Thorough() && cell.Int64() <= 27 {
		attempts = 3
	}
	if cell.Int64() > 700 {
		attempts = 1
		// few rejected candidates: their retries are cheap to explore
		rej := new(big.Int).Sub(cell, count)
		if rej.IsInt64() && rej.Int64()*cell.Int64() <= 600000 {
			attempts = 2
		}
	}
	if c.Thorough() && cell.Int64() <= 4096 && count.Cmp(cell) != 0 {
		attempts = 2
	}
	d, st := charCell(r, attempts, 3_000_000)
	c.Count("executions", st.Leaves)
	c.Count("nodes", st.Nodes)
	c.Count("edges", st.Edges)
	c.Count("recipes_explored", 1)
	c.Count("unannounced_reads", st.Unannounced)
	c.Max("max_depth", int64(st.MaxDepth))
	if st.Capped || st.TooWide {
		c.Incomplete("cell of %v capped (too many leaves)", lit)
		return
	}
	if st.Uncalibrated {
		c.Incomplete("bounded draw could not be calibrated (exotic sampler); cell of %v not decided", lit)
		return
	}
	if st.Unannounced > 0 {
		c.Incomplete("raw 32-bit reads outside the bounded draw in %v: exact probabilities not decided (only a 45-word menu of the 2^32 raw values is explored)", lit)
		// validity of everything returned is still decided
		for k := range d.Mass {
			if chars := keyChars(k); chars == nil || !r.Valid(chars) {
				c.Violation("recipe "+mustJSON(lit)+" invalid", fmt.Sprintf("returned %q, which the recipe does not allow", k), map[string]interface{}{"recipe": lit, "outcomes": d.Example[k]})
				break
			}
		}
		return
	}
	key := fmt.Sprintf("recipe %s", mustJSON(lit))
	if len(d.Mass) == 0 && d.PanMass.Sign() == 0 && modelVerdict(r) != "accept" {
		c.Count("recipes_refused", 1) // refused, though only after drawing
		return
	}
	if d.PanMass.Sign() != 0 {
		c.Violation(key+" panic", "Generate panicked: "+d.PanicMsg, map[string]interface{}{"recipe": lit, "outcomes": d.PanicEx})
		return
	}
	if d.Total().Cmp(big.NewRat(1, 1)) != 0 {
		c.Violation(key+" mass", fmt.Sprintf("explored masses sum to %s, not 1", d.Total().RatString()), map[string]interface{}{"recipe": lit})
	}
	// (ii) only valid strings
	outs := make([]string, 0, len(d.Mass))
	for k := range d.Mass {
		outs = append(outs, k)
	}
	sort.Strings(outs)
	var first *big.Rat
	for _, k := range outs {
		chars := keyChars(k)
		if chars == nil || !r.Valid(chars) {
			c.Violation(key+" invalid", fmt.Sprintf("returned %q, which the recipe does not allow", k), map[string]interface{}{"recipe": lit, "outcomes": d.Example[k]})
			return
		}
		if first == nil {
			first = d.Mass[k]
		} else if first.Cmp(d.Mass[k]) != 0 {
			c.Violation(key+" nonuniform", fmt.Sprintf("%q has probability %s but %q has %s (explored to %d candidates)", outs[0], first.RatString(), k, d.Mass[k].RatString(), attempts),
				map[string]interface{}{"recipe": lit, "outcomes_a": d.Example[outs[0]], "outcomes_b": d.Example[k]})
			return
		}
		c.Outcome(k)
	}
	// (i) every valid string occurs
	if big.NewInt(int64(len(outs))).Cmp(count) != 0 {
		c.Violation(key+" missing", fmt.Sprintf("%d distinct passwords returned over the complete cell, the recipe allows %s", len(outs), count.String()), map[string]interface{}{"recipe": lit})
		return
	}
	if len(outs) > 1 {
		c.Count("recipes_with_several_outputs", 1)
	}
	if count.Cmp(cell) != 0 {
		c.Count("recipes_with_retries", 1)
	}
	c.Count("distinct_outputs", int64(len(outs)))
	c.Sample(map[string]interface{}{"recipe": lit, "alphabet": ab, "leaves": st.Leaves, "valid_strings": count.String(), "mass_each": first.RatString(), "cut_mass": d.CutMass.RatString(), "candidates_deep": attempts})
	// F2: outcome-only dependence (lifted / rejected words), one deviation
	if cell.Int64() <= 5000 {
		f2(c, r, key, lit)
	}
}

// keyChars recovers the characters of an all-single-character-atom token key.
func keyChars(k string) []string {
	if k == "" {
		return []string{}
	}
	var out []string
	for _, part := range splitKey(k) {
		if len(part) < 3 || part[:2] != "A:" {
			return nil
		}
		ch := ref.Chars(part[2:])
		if len(ch) != 1 {
			return nil
		}
		out = append(out, ch[0])
	}
	return out
}

func splitKey(k string) []string {
	// values never contain '|' in the explored alphabets
	return strings.Split(k, "|")
}

func mustJSON(v interface{}) string {
	b, _ := json.Marshal(v)
	return string(b)
}

// c02RetryCoverage: long passwords, where complete cells are out of reach.
// The default answer of every draw is a character that fails the requirement;
// every execution in which exactly one draw deviates is run. Whatever single
// draw supplies the required character, the result must be valid, and over
// all those executions the required character must be able to land on every
// position - also after one or more rejected candidates. A retry that reuses
// part of a rejected candidate cannot do that.
func c02RetryCoverage(c *core.Ctx, r ref.CharRecipe, need string) {
	sr := toSpg(r)
	ab := r.Alphabet()
	lit := recipeLit(r)
	key := "retry-coverage " + mustJSON(lit)
	fail := uint32(0)
	for i, ch := range ab {
		if ch != need {
			fail = uint32(i)
		}
	}
	N := uint32(len(ab))
	L := r.Length
	posFirst := make([]bool, L) // required character seen at position j with no rejected candidate before
	posRetry := make([]bool, L) // ... after at least one rejected candidate
	bad := ""
	oldT := spg.MaxTrials
	spg.MaxTrials = 4 // the all-default stream fails every attempt; keep it short
	oldR := spg.MaxFailRate
	spg.MaxFailRate = 1
	defer func() { spg.MaxTrials, spg.MaxFailRate = oldT, oldR }()
	st := exploreCell(sr.Generate, CellOpt{DepthCut: 4*L + 4, Fallback: 2, MaxMenu: 4096, MaxLeaves: 200000, Dev: 1, Rot: func(n uint32) uint32 {
		if n == N {
			return fail
		}
		return 0
	}}, func(l *Leaf) {
		if bad != "" || l.Out.Aborted || !l.Out.HasPw {
			return
		}
		chars := tokChars(l.Out.Toks)
		if !r.Valid(chars) {
			bad = fmt.Sprintf("returned %q, which the recipe does not allow", l.Out.Str)
			return
		}
		for j, ch := range chars {
			if ch == need {
				if l.Tape.Words <= L {
					posFirst[j] = true
				} else {
					posRetry[j] = true
				}
			}
		}
	})
	c.Count("executions", st.Leaves)
	c.Count("nodes", st.Nodes)
	c.Count("edges", st.Edges)
	c.Count("retry_coverage_recipes", 1)
	if st.Capped || st.Uncalibrated || st.Unannounced > 0 {
		c.Incomplete("retry coverage of %v not decided", lit)
		return
	}
	if bad != "" {
		c.Violation(key+" invalid", bad, map[string]interface{}{"recipe": lit, "mode": "retry-coverage", "need": need})
		return
	}
	for j := 0; j < L; j++ {
		if !posFirst[j] || !posRetry[j] {
			when := "as part of the first candidate"
			if posFirst[j] {
				when = "after a rejected candidate"
			}
			c.Violation(key+" position", fmt.Sprintf("Length %d: the required character %q can never end up at position %d %s, whichever single draw supplies it (valid strings with it there are unreachable or disfavoured)", L, need, j, when),
				map[string]interface{}{"recipe": lit, "mode": "retry-coverage", "need": need})
			return
		}
	}
	c.Outcome(fmt.Sprintf("retry coverage L=%d", L))
}

func c02Run(c *core.Ctx) {
	lens := []int{2, 5, 8, 15, 16, 17, 31, 32, 33, 64, 65}
	if c.Thorough() {
		lens = append(lens, 100, 127, 128, 129, 199, 200, 256, 257)
	}
	for _, L := range lens {
		for _, rr := range []struct {
			r    ref.CharRecipe
			need string
		}{
			{ref.CharRecipe{Length: L, AllowChars: "a", RequireSets: []string{"0"}}, "0"},
			{ref.CharRecipe{Length: L, AllowChars: "abé", RequireSets: []string{"z"}}, "z"},
			{ref.CharRecipe{Length: L, Allow: ref.Symbols, Require: ref.Digits, ExcludeChars: "123456789"}, "0"},
		} {
			if c.Mine() {
				c02RetryCoverage(c, rr.r, rr.need)
			}
		}
	}
	if !charPairs(c) {
		return
	}
	// Recipes that differ only in their required sets form a group and run in
	// the same worker process, one after the other, so that state leaking
	// from one recipe into the next (a cache with an incomplete key) shows
	// up as a wrong distribution of the later one. Groups are spread over
	// the workers by estimated cost (largest first, to the least loaded).
	all := c02Recipes(c.Tier)
	type group struct {
		key  string
		cost float64
		idx  []int
	}
	gmap := map[string]*group{}
	var groups []*group
	for i, r := range all {
		k := fmt.Sprintf("%d|%s|%s|%d|%d", r.Length, r.AllowChars, r.ExcludeChars, r.Allow, r.Exclude)
		g := gmap[k]
		if g == nil {
			g = &group{key: k}
			gmap[k] = g
			groups = append(groups, g)
		}
		n := float64(len(r.Alphabet()))
		leaves := math.Pow(n, float64(r.Length))
		g.cost += leaves*float64(r.Length)*(1+n) + 50
		g.idx = append(g.idx, i)
	}
	sort.SliceStable(groups, func(i, j int) bool { return groups[i].cost > groups[j].cost })
	load := make([]float64, c.NShards)
	mine := map[int]bool{}
	for _, g := range groups {
		best := 0
		for s := range load {
			if load[s] < load[best] {
				best = s
			}
		}
		load[best] += g.cost
		if best == c.Shard {
			for _, i := range g.idx {
				mine[i] = true
			}
		}
	}
	for i, r := range all {
		if !mine[i] {
			continue
		}
		if c.Expired() {
			c.Incomplete("deadline reached; remaining recipes of shard %d skipped", c.Shard)
			break
		}
		c02Recipe(c, r)
	}
}

func init() {
	Register(&core.Check{
		ID:    "C02",
		Level: "model_checking",
		Rule: "for each recipe of the configuration set (custom strings over {a,b,c,é,1} with duplicates/overlaps, 0-2 required sets, lengths 1-3, class-sized cells) every combination of outcomes of every bounded draw of Generate is executed on the real code (complete cell, 1-3 candidates deep); " +
			"exact rational probabilities per returned string; a recipe is non-trivial when its cell returns more than one distinct password; then every single-draw lift/reject deviation (F2); for lengths 2-65 (thorough 257) every execution in which exactly one draw supplies the required character, with a position-coverage oracle before and after rejected candidates",
		Assume:      []string{"C01 (each bounded draw is uniform) turns leaf counts into probabilities", "canonical alphabet order (verif hook) is independent of the tape", "cells deeper than the candidate depth are cut and their mass accounted as cut mass"},
		Run:         c02Run,
		DistinctKey: "recipes_with_several_outputs",
	})
	Replayers["C02"] = func(raw json.RawMessage) (string, bool) {
		var rp struct {
			Recipe ref.CharRecipe `json:"recipe"`
		}
		json.Unmarshal(raw, &rp)
		c := &core.Ctx{ID: "C02", Tier: "quick", NShards: 1}
		c02Recipe(c, rp.Recipe)
		return fmt.Sprintf("recipe %+v: %d violation(s) %v", rp.Recipe, c.R.NViol, c.R.Violations), c.R.NViol > 0
	}
}
