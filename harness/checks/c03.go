package checks

import (
	"encoding/json"
	"fmt"
	"strings"

	"verif/harness/core"
	"verif/harness/ref"
)

// ---------- C03: every character password satisfies its recipe; exclusion wins ----------

var c03Customs = []ref.CharRecipe{
	{},
	{AllowChars: "abcé💩"},
	{AllowChars: "aab1", ExcludeChars: "a"},
	{RequireSets: []string{"é💩"}},
	{AllowChars: "c", RequireSets: []string{"ab", "bc"}},
	{ExcludeChars: "0aO!"},
	{AllowChars: "a1!", RequireSets: []string{"1!"}, ExcludeChars: "1"},
	{RequireSets: []string{"xyz", "xyz"}, ExcludeChars: "x"},
	{AllowChars: "ééé", RequireSets: []string{"", "é"}, ExcludeChars: "Aé"},
	{AllowChars: "èêĩ", RequireSets: []string{"é"}}, // characters sharing UTF-8 lead/trail bytes with the required one
}

// c03Check validates one returned password against the model.
func c03Check(r ref.CharRecipe, out GenOut, abSet map[string]bool) string {
	if len(out.Toks) != r.Length {
		return fmt.Sprintf("%d tokens, Length is %d", len(out.Toks), r.Length)
	}
	var sb strings.Builder
	chars := make([]string, len(out.Toks))
	for i, t := range out.Toks {
		if t.T != 1 {
			return fmt.Sprintf("token %d is not an atom", i)
		}
		if len(ref.Chars(t.V)) != 1 {
			return fmt.Sprintf("token %d = %q is not a single character", i, t.V)
		}
		if !abSet[t.V] {
			return fmt.Sprintf("character %q is not allowed (or is excluded)", t.V)
		}
		chars[i] = t.V
		sb.WriteString(t.V)
	}
	if sb.String() != out.Str {
		return fmt.Sprintf("String() %q is not the concatenation of the tokens %q", out.Str, sb.String())
	}
	if !r.Valid(chars) {
		return fmt.Sprintf("%q misses a required set", out.Str)
	}
	return ""
}

func c03Recipe(c *core.Ctx, r ref.CharRecipe, full bool) { c03RecipeMode(c, r, full, false) }

func c03RecipeMode(c *core.Ctx, r ref.CharRecipe, full bool, long bool) {
	sr := toSpg(r)
	lit := recipeLit(r)
	key := "recipe " + mustJSON(lit)
	ab := r.Alphabet()
	want := strings.Join(ab, "")
	got, pan := "", ""
	func() {
		defer func() {
			if x := recover(); x != nil {
				pan = fmt.Sprint(x)
			}
		}()
		got = sr.Alphabet()
	}()
	c.Count("executions", 1)
	if pan != "" {
		c.Violation(key+" alphabet-panic", "Alphabet() panicked: "+pan, map[string]interface{}{"recipe": lit})
		return
	}
	if got != want {
		c.Violation(key+" alphabet", fmt.Sprintf("Alphabet() = %q, the characters that can appear are %q", got, want), map[string]interface{}{"recipe": lit})
		return
	}
	if r.Length < 1 || len(ab) == 0 || r.Count().Sign() == 0 {
		c.Count("recipes_unsatisfiable", 1)
		return
	}
	abSet := map[string]bool{}
	for _, ch := range ab {
		abSet[ch] = true
	}
	N := len(ab)
	good := validIndices(r, ab)
	run := func(over map[int]int, first []int, what string) bool {
		t := policyTape(func(bound uint32, i int) uint32 {
			if int(bound) != N {
				return 0
			}
			if i < len(first) {
				return uint32(first[i])
			}
			if v, ok := over[i]; ok {
				return uint32(v)
			}
			return uint32(good[i%len(good)])
		})
		install(t)
		out := runGen(sr.Generate)
		c.Count("executions", 1)
		rp := map[string]interface{}{"recipe": lit, "tape_policy": what, "override": over, "first_candidate": first, "valid_candidate": good}
		if out.Panic != "" {
			c.Violation(key+" panic", "Generate panicked: "+out.Panic, rp)
			return false
		}
		if !out.HasPw {
			if t.Words == 0 || modelVerdict(r) != "accept" {
				c.Count("recipes_refused", 1)
				return false
			}
			c.Violation(key+" failed", fmt.Sprintf("Generate failed (%s) on a tape whose later candidates are valid (%s)", out.Err, what), rp)
			return false
		}
		if msg := c03Check(r, out, abSet); msg != "" {
			c.Violation(key+" bad-password", msg+" ("+what+")", rp)
			return false
		}
		c.Outcome(out.Str)
		return true
	}
	if !run(nil, nil, "valid first candidate") {
		return
	}
	c.Count("recipes_generated", 1)
	// deviations: force every (or the stated subset of) alphabet index at
	// every (first/last) position
	positions := []int{0, r.Length - 1}
	idxs := []int{0, 1, N - 1}
	if long {
		positions, idxs = []int{r.Length - 1}, []int{N - 1}
	}
	if full {
		positions = positions[:0]
		for i := 0; i < r.Length; i++ {
			positions = append(positions, i)
		}
		idxs = idxs[:0]
		for i := 0; i < N; i++ {
			idxs = append(idxs, i)
		}
	}
	seen := map[[2]int]bool{}
	for _, p := range positions {
		for _, k := range idxs {
			if k < 0 || k >= N || seen[[2]int{p, k}] || k == good[p] {
				continue
			}
			seen[[2]int{p, k}] = true
			if !run(map[int]int{p: k}, nil, fmt.Sprintf("position %d forced to alphabet index %d", p, k)) {
				return
			}
			if full && r.Length >= 2 && c.Thorough() {
				// second deviation at the last position of the same candidate
				q := r.Length - 1
				if q != p {
					for _, k2 := range []int{0, N - 1} {
						if !run(map[int]int{p: k, q: k2}, nil, fmt.Sprintf("positions %d,%d forced to %d,%d", p, q, k, k2)) {
							return
						}
					}
				}
			}
		}
	}
	// a first candidate that misses each single requirement in turn
	for j, set := range r.Req() {
		in := map[string]bool{}
		for _, ch := range set {
			in[ch] = true
		}
		avoid := -1
		for i := N - 1; i >= 0; i-- {
			if !in[ab[i]] {
				avoid = i
				break
			}
		}
		if avoid < 0 {
			continue
		}
		first := make([]int, r.Length)
		for i := range first {
			first[i] = avoid
		}
		c.Count("requirement_miss_tapes", 1)
		if !run(nil, first, fmt.Sprintf("first candidate avoids required set %d", j)) {
			return
		}
	}
	if len(r.Req()) > 0 {
		c.Count("recipes_with_requirements", 1)
		c.Sample(map[string]interface{}{"recipe": lit, "alphabet": want})
	}
}

// c03Orders: Alphabet() and a generated password must not depend on the
// iteration order of the class map (all 120 orders, instrumented build).
func c03Orders(c *core.Ctx) {
	if verifrtMissing() {
		c.Incomplete("plain build: iteration order of the class map is the runtime's, not enumerated")
		return
	}
	flags := []uint32{0, ref.Digits, ref.Symbols, ref.Ambiguous, ref.Digits | ref.Symbols, ref.Digits | ref.Ambiguous, ref.Symbols | ref.Ambiguous, ref.Digits | ref.Symbols | ref.Ambiguous}
	if !c.Thorough() {
		flags = []uint32{0, ref.Digits, ref.Symbols | ref.Ambiguous, ref.Digits | ref.Symbols | ref.Ambiguous}
	}
	for _, al := range flags {
		for _, rq := range flags {
			for _, ex := range flags {
				if !c.Mine() {
					continue
				}
				r := ref.CharRecipe{Length: 2, Allow: al, Require: rq, Exclude: ex, AllowChars: "a1"}
				sr := toSpg(r)
				ab := r.Alphabet()
				if len(ab) == 0 || r.Count().Sign() == 0 {
					continue
				}
				good := validIndices(r, ab)
				var firstAb, firstPw string
				n := 0
				execs, _ := underAllOrders(func(site string) bool { return strings.HasPrefix(site, "char_gen.go") }, func(orders []string) bool {
					a := sr.Alphabet()
					t := policyTape(func(b uint32, i int) uint32 {
						if int(b) == len(ab) {
							return uint32(good[i%len(good)])
						}
						return 0
					})
					install(t)
					out := runGen(sr.Generate)
					pw := renderGen(out)
					if n == 0 {
						firstAb, firstPw = a, pw
					} else if a != firstAb || pw != firstPw {
						c.Violation("order "+mustJSON(recipeLit(r)), fmt.Sprintf("under class-map order %v: Alphabet %q, Generate %s; under the first order: %q, %s", orders, a, pw, firstAb, firstPw),
							map[string]interface{}{"recipe": recipeLit(r), "orders": append([]string{}, orders...)})
						return false
					}
					n++
					return true
				})
				c.Count("executions", 2*execs)
				c.Count("map_order_executions", execs)
			}
		}
	}
}

// c03Long: long passwords (where a success probability computed in float32
// rounds to exactly 1): the first candidate avoids one required set entirely
// and must not be returned.
func c03Long(c *core.Ctx) {
	recipes := []ref.CharRecipe{
		{Allow: ref.All, Require: ref.Lowers},
		{Allow: ref.Letters, Require: ref.Digits},
		{Allow: ref.All, Require: ref.All},
		{Allow: ref.All, Exclude: ref.Ambiguous, Require: ref.Digits | ref.Symbols},
		{Allow: ref.Lowers, RequireSets: []string{"é", "0"}},
	}
	lens := []int{24, 28, 40, 100, 160}
	if c.Thorough() {
		lens = []int{20, 24, 25, 28, 32, 40, 64, 80, 96, 100, 128, 150, 200, 300, 500}
	}
	for _, L := range lens {
		for _, r := range recipes {
			if !c.Mine() {
				continue
			}
			r.Length = L
			c03RecipeMode(c, r, false, true)
			c.Count("long_recipes", 1)
		}
	}
}

func c03Run(c *core.Ctx) {
	if !charPairs(c) {
		return
	}
	c03Long(c)
	c03Orders(c)
	lengths := []int{1, 2, 5}
	for trip := 0; trip < 1<<15; trip++ {
		al, rq, ex := uint32(trip&31), uint32(trip>>5&31), uint32(trip>>10&31)
		sub := (al|rq|ex)&^(ref.Digits|ref.Symbols|ref.Ambiguous) == 0
		if !c.MineKey(trip) {
			continue // all custom settings and lengths of a flag triple run in one process, in sequence
		}
		for ci, cu := range c03Customs {
			for _, L := range lengths {
				if !c.Thorough() && !sub && !(ci == trip%len(c03Customs) && L == 2) {
					// quick: outside the 3-class subset one custom setting
					// per triple at one length
					continue
				}
				r := cu
				r.Length, r.Allow, r.Require, r.Exclude = L, al, rq, ex
				c03Recipe(c, r, sub && (c.Thorough() || L <= 2))
			}
		}
		if c.Expired() {
			c.Incomplete("deadline at flag triple %d of 32768", trip)
			return
		}
	}
}

func init() {
	Register(&core.Check{
		ID:    "C03",
		Level: "model_checking",
		Build: "inst",
		Rule: "all 2^15 (allow,require,exclude) class-flag triples x 10 custom-string settings (multi-byte, duplicates, overlaps, emptied sets) x lengths {1,2,5} (quick: every triple once, the 3-class subset completely): Alphabet() compared with the model; Generate run on a policy tape with a valid first candidate, then with each position forced to each alphabet index (one deviation; thorough adds a second), then with a first candidate that misses each single requirement; " +
			"every returned password checked token by token; the same for 5 recipes at 5 (thorough 15) lengths from 20 to 500; plus 64 (thorough 512) triples of the 3-class subset under all 120 iteration orders of the class map (instrumented build); non-trivial = distinct passwords observed",
		Assume:    []string{"deviation-bounded: at most 1 (quick) / 2 (thorough) draws deviate from the model's valid candidate per execution; complete cells are C02's"},
		Run:       c03Run,
		StatesKey: "executions", TransKey: "executions",
	})
	Replayers["C03"] = func(raw json.RawMessage) (string, bool) {
		var rp struct {
			Recipe ref.CharRecipe `json:"recipe"`
		}
		json.Unmarshal(raw, &rp)
		c := &core.Ctx{ID: "C03", Tier: "thorough", NShards: 1}
		c03Recipe(c, rp.Recipe, true)
		return fmt.Sprintf("recipe %+v: %d violation(s) %v", rp.Recipe, c.R.NViol, c.R.Violations), c.R.NViol > 0
	}
}
