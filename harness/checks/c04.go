package checks

import (
	"encoding/json"
	"fmt"
	"math/big"

	"verif/harness/core"
	"verif/harness/ref"
)

// ---------- C04: wordlist choices uniform and independent ----------

func c04Case(c *core.Ctx, w WLCase, maxLeaves int64) {
	key := "case " + mustJSON(w)
	rp := map[string]interface{}{"case": w}
	kept, _ := ref.Normalise(w.Words)
	if ref.TitleCollision(kept) && (w.Cap != "none") {
		c.Count("skipped_title_collision_premise", 1)
		return
	}
	if _, known := capSets(w.Cap, w.Length); !known {
		return
	}
	d, st, err := wlCell(w, maxLeaves, nil)
	if err != nil {
		c.Violation(key+" build", "NewWordList failed: "+err.Error(), rp)
		return
	}
	c.Count("executions", st.Leaves)
	c.Count("nodes", st.Nodes)
	c.Count("edges", st.Edges)
	c.Count("unannounced_reads", st.Unannounced)
	c.Count("cases_explored", 1)
	if st.Capped || st.TooWide {
		c.Incomplete("cell of %s capped", mustJSON(w))
		return
	}
	if st.Uncalibrated {
		c.Incomplete("bounded draw could not be calibrated; %s undecided", mustJSON(w))
		return
	}
	if st.Unannounced > 0 {
		c.Incomplete("unannounced reads in %s: uniformity of those draws not decided", mustJSON(w))
	}
	if d.PanMass.Sign() != 0 {
		c.Violation(key+" panic", "Generate panicked: "+d.PanicMsg, map[string]interface{}{"case": w, "outcomes": d.PanicEx})
		return
	}
	if d.ErrMass.Sign() != 0 {
		c.Violation(key+" error", "Generate returned an error on some random streams", map[string]interface{}{"case": w, "outcomes": d.ErrEx})
		return
	}
	if d.CutMass.Sign() != 0 {
		c.Incomplete("cell of %s deeper than the depth cut", mustJSON(w))
		return
	}
	if d.Total().Cmp(big.NewRat(1, 1)) != 0 {
		c.Violation(key+" mass", "explored masses sum to "+d.Total().RatString(), rp)
		return
	}
	model, elems := w.modelDist()
	for _, k := range sortedKeys(model) {
		got := d.Mass[k]
		if got == nil {
			c.Violation(key+" missing", fmt.Sprintf("password %q can never be generated (expected probability %s)", k, model[k].RatString()), rp)
			return
		}
		if got.Cmp(model[k]) != 0 {
			c.Violation(key+" mass-differs", fmt.Sprintf("password %q has probability %s, the uniform independent product gives %s", k, got.RatString(), model[k].RatString()),
				map[string]interface{}{"case": w, "outcomes": d.Example[k]})
			return
		}
	}
	for _, k := range sortedKeys(d.Mass) {
		if model[k] == nil {
			c.Violation(key+" extra", fmt.Sprintf("password %q is generated but is not in the recipe's product space", k), map[string]interface{}{"case": w, "outcomes": d.Example[k]})
			return
		}
		c.Outcome(k)
	}
	if len(model) > 1 {
		c.Count("cases_with_several_outputs", 1)
	}
	if int64(len(model)) == elems {
		c.Count("cases_fully_uniform", 1)
	}
	if len(model) > 4 {
		c.Sample(map[string]interface{}{"case": w, "leaves": st.Leaves, "distinct_passwords": len(model), "product_elements": elems})
	}
}

func c04Run(c *core.Ctx) {
	maxLeaves := int64(6000)
	lengths := []int{1, 2, 3}
	if c.Thorough() {
		maxLeaves = 300000
	}
	cases := wlCases(maxLeaves, lengths)
	// biggest first so that shards balance
	for _, w := range cases {
		if !c.Mine() {
			continue
		}
		if c.Expired() {
			c.Incomplete("deadline")
			return
		}
		c04Case(c, w, maxLeaves*4)
	}
}

func init() {
	Register(&core.Check{
		ID:    "C04",
		Level: "model_checking",
		Rule: "for each wordlist case (10 lists incl. sizes 1,2,3,5, twins, caseless, pre-capitalised, non-ASCII x lengths 1-3 x 5 schemes x 10 separator settings, cells up to 6000 leaves quick / 300000 thorough) every combination of outcomes of every bounded draw of the real Generate is executed; the exact rational probability of every token sequence must equal the uniform independent product pushed through title-casing; " +
			"non-trivial = cases whose cell returns more than one distinct password",
		Assume:      []string{"C01 per-draw uniformity", "lists violating the title-casing premise are skipped when capitalisation is on", "separator recipes that need retries are outside complete cells (covered deviation-bounded in C05)"},
		Run:         c04Run,
		DistinctKey: "cases_with_several_outputs",
	})
	Replayers["C04"] = func(raw json.RawMessage) (string, bool) {
		var rp struct {
			Case WLCase `json:"case"`
		}
		json.Unmarshal(raw, &rp)
		c := &core.Ctx{ID: "C04", Tier: "quick", NShards: 1}
		c04Case(c, rp.Case, 2000000)
		return fmt.Sprintf("case %s: %d violation(s) %v", mustJSON(rp.Case), c.R.NViol, c.R.Violations), c.R.NViol > 0
	}
}
