package checks

import (
	"encoding/json"
	"fmt"
	"math"
	"math/big"

	"go.1password.io/spg"
	"verif/harness/core"
	"verif/harness/ref"
)

// ---------- C04: wordlist choices uniform and independent ----------

func c04Case(c *core.Ctx, w WLCase, maxLeaves int64) {
	key := "case " + mustJSON(w)
	rp := map[string]interface{}{"case": w}
	kept, _ := ref.Normalise(w.Words)
	if ref.TitleCollision(kept) && (w.Cap != "none") {
		c.Count("skipped_title_collision_premise", 1)
		return
	}
	if _, known := capSets(w.Cap, w.Length); !known {
		return
	}
	chunkMsg := ""
	rejDone := false
	var rgen func() (*spg.Password, error)
	d, st, err := wlCell(w, maxLeaves, func(l *Leaf) {
		// every 7th leaf: the same words delivered one byte per read
		if chunkMsg != "" || l.Out.Aborted || len(l.Bounds)%1 != 0 {
			return
		}
		if rgen == nil {
			r2, err := w.build()
			if err != nil {
				return
			}
			rgen = r2.Generate
		}
		base := make([]uint32, len(l.Bounds))
		for i := range base {
			base[i], _ = cal.Rep(l.Bounds[i], l.Outs[i])
		}
		want, _ := runScript(rgen, base)
		if m := chunkedReplay(rgen, base, want); m != "" {
			chunkMsg = m
		}
		// runs of rejected words before each draw of the first leaf: every
		// one must be redrawn, the result must not change
		if !rejDone {
			rejDone = true
			for i := range base {
				rw := rejectWords(l.Bounds[i])
				if len(rw) == 0 {
					continue
				}
				for _, k := range []int{1, 2, 5, 9, 17, 40} {
					v := append([]uint32{}, base[:i]...)
					for j := 0; j < k; j++ {
						v = append(v, rw[j%len(rw)])
					}
					v = append(v, base[i:]...)
					got, t := runScript(rgen, v)
					if !sameOut(got, want) || t.Words != len(base)+k {
						chunkMsg = fmt.Sprintf("%d rejected words before draw %d (bound %d) changed the result: %q (%s%s, %d words used) instead of %q (%d words + %d redraws expected)", k, i, l.Bounds[i], tokKey(got.Toks), got.Err, got.Panic, t.Words, tokKey(want.Toks), len(base), k)
						return
					}
				}
			}
		}
	})
	if err != nil {
		c.Violation(key+" build", "NewWordList failed: "+err.Error(), rp)
		return
	}
	if chunkMsg != "" {
		c.Violation(key+" replay", chunkMsg, rp)
		return
	}
	c.Count("executions", st.Leaves)
	c.Count("nodes", st.Nodes)
	c.Count("edges", st.Edges)
	c.Count("unannounced_reads", st.Unannounced)
	c.Count("cases_explored", 1)
	if st.Capped || st.TooWide {
		c.Incomplete("cell of %s capped", mustJSON(w))
		return
	}
	if st.Uncalibrated {
		c.Incomplete("bounded draw could not be calibrated; %s undecided", mustJSON(w))
		return
	}
	if st.Unannounced > 0 {
		c.Incomplete("raw 32-bit reads outside the bounded draw in %s: exact probabilities not decided (C05 still checks the structure of every explored password, the coverage pass every coordinate)", mustJSON(w))
		return
	}
	if d.PanMass.Sign() != 0 {
		c.Violation(key+" panic", "Generate panicked: "+d.PanicMsg, map[string]interface{}{"case": w, "outcomes": d.PanicEx})
		return
	}
	if d.ErrMass.Sign() != 0 {
		c.Violation(key+" error", "Generate returned an error on some random streams", map[string]interface{}{"case": w, "outcomes": d.ErrEx})
		return
	}
	if d.CutMass.Sign() != 0 {
		c.Incomplete("cell of %s deeper than the depth cut", mustJSON(w))
		return
	}
	if d.Total().Cmp(big.NewRat(1, 1)) != 0 {
		c.Violation(key+" mass", "explored masses sum to "+d.Total().RatString(), rp)
		return
	}
	model, elems := w.modelDist()
	for _, k := range sortedKeys(model) {
		got := d.Mass[k]
		if got == nil {
			c.Violation(key+" missing", fmt.Sprintf("password %q can never be generated (expected probability %s)", k, model[k].RatString()), rp)
			return
		}
		if got.Cmp(model[k]) != 0 {
			c.Violation(key+" mass-differs", fmt.Sprintf("password %q has probability %s, the uniform independent product gives %s", k, got.RatString(), model[k].RatString()),
				map[string]interface{}{"case": w, "outcomes": d.Example[k]})
			return
		}
	}
	for _, k := range sortedKeys(d.Mass) {
		if model[k] == nil {
			c.Violation(key+" extra", fmt.Sprintf("password %q is generated but is not in the recipe's product space", k), map[string]interface{}{"case": w, "outcomes": d.Example[k]})
			return
		}
		c.Outcome(k)
	}
	if len(model) > 1 {
		c.Count("cases_with_several_outputs", 1)
	}
	if int64(len(model)) == elems {
		c.Count("cases_fully_uniform", 1)
	}
	if len(model) > 4 {
		c.Sample(map[string]interface{}{"case": w, "leaves": st.Leaves, "distinct_passwords": len(model), "product_elements": elems})
	}
}

// c04Coverage handles lengths whose complete cell is out of reach: every
// execution with at most ONE draw deviating from the default answer is run
// (each alternative of each draw, so menus of any size are enumerated) and
// the union of the outputs must show every coordinate value the documentation
// promises: each word at each position, each position capitalised and not
// (random) / each position as the capitalised one (one), each separator value
// in each gap. A value that no single draw can produce has probability 0 or
// needs a conspiracy of draws - either way the product is not uniform.
func c04Coverage(c *core.Ctx, w WLCase) {
	key := "coverage " + mustJSON(w)
	rp := map[string]interface{}{"case": w, "mode": "coverage"}
	kept, _ := ref.Normalise(w.Words)
	seps, _, _ := w.sepModel()
	r, err := w.build()
	if err != nil {
		return
	}
	L := w.Length
	wordSeen := make([]map[string]bool, L)
	capSeen := make([][2]bool, L) // [plain, capitalised]
	onlyCap := make([]bool, L)
	sepSeen := make([]map[string]bool, L)
	for i := range wordSeen {
		wordSeen[i] = map[string]bool{}
		sepSeen[i] = map[string]bool{}
	}
	// title form -> list word (for recognising capitalised atoms)
	baseOf := map[string]string{}
	for _, k := range kept {
		if t := ref.Title(k); t != k {
			baseOf[t] = k
		}
	}
	bad := ""
	maxBits := 0.0
	st := exploreCell(r.Generate, CellOpt{DepthCut: 4*L + 8, Fallback: 2, MaxMenu: 1 << 17, MaxLeaves: 3_000_000, Dev: 1, Log: true, BigRaw: true}, func(l *Leaf) {
		if l.Out.Aborted || bad != "" {
			return
		}
		bits := 0.0
		for _, d := range l.Tape.Log {
			if d.Cont {
				continue
			}
			if d.Announced {
				bits += math.Log2(float64(d.Bound))
			} else {
				bits += 32
			}
		}
		if bits > maxBits {
			maxBits = bits
		}
		if !l.Out.HasPw {
			bad = "Generate failed: " + l.Out.Err + l.Out.Panic
			return
		}
		if len(l.Out.Atoms) != L {
			bad = fmt.Sprintf("%d atoms for Length %d", len(l.Out.Atoms), L)
			return
		}
		ncap, last := 0, -1
		for i, a := range l.Out.Atoms {
			isCap := false
			base := a
			if k, ok := baseOf[a]; ok {
				isCap, base = true, k
			}
			wordSeen[i][base] = true
			if isCap {
				capSeen[i][1] = true
				ncap++
				last = i
			} else {
				capSeen[i][0] = true
			}
		}
		if ncap == 1 {
			onlyCap[last] = true
		}
		for i, sp := range l.Out.Seps {
			if i < L {
				sepSeen[i][sp] = true
			}
		}
	})
	c.Count("executions", st.Leaves)
	c.Count("nodes", st.Nodes)
	c.Count("edges", st.Edges)
	c.Count("coverage_cases", 1)
	if bad != "" {
		c.Violation(key+" failed", bad, rp)
		return
	}
	capitalisable := true
	for _, k := range kept {
		if ref.Title(k) == k {
			capitalisable = false
		}
	}
	// pigeonhole: the draws of one generation must be able to tell all
	// elements of the product space apart
	if capitalisable {
		capBits, known := 0.0, true
		switch w.Cap {
		case "none", "first", "all":
		case "one":
			capBits = math.Log2(float64(L))
		case "random":
			capBits = float64(L)
		default:
			known = false
		}
		if known {
			need := float64(L)*math.Log2(float64(len(kept))) + capBits
			if len(seps) > 1 {
				need += float64(L-1) * math.Log2(float64(len(seps)))
			}
			if maxBits < need-1e-6 {
				c.Violation(key+" pigeonhole", fmt.Sprintf("Length %d, scheme %s: the recipe has 2^%.3f possible passwords but one generation only makes draws worth %.3f bits - some of them can never be produced", L, w.Cap, need, maxBits), rp)
				return
			}
		}
	}
	if st.Capped || st.TooWide || st.Uncalibrated {
		// the pigeonhole bound above only needs the announced bounds; the
		// coverage verdicts below need every alternative of every draw
		c.Incomplete("coverage exploration of %s capped/too wide/uncalibrated (pigeonhole bound judged)", mustJSON(w))
		return
	}
	if st.Unannounced > 0 {
		// raw 32-bit words are explored through a 4141-word menu (see
		// rawMenuBig): stated in the evidence
		c.Count("coverage_cases_with_raw_reads", 1)
	}
	for i := 0; i < L; i++ {
		for _, k := range kept {
			if !wordSeen[i][k] {
				c.Violation(key+" word", fmt.Sprintf("word %q never appears at position %d of %d, whichever single draw is changed", k, i, L), rp)
				return
			}
		}
		if capitalisable {
			switch w.Cap {
			case "random":
				if !capSeen[i][0] || !capSeen[i][1] {
					c.Violation(key+" caps", fmt.Sprintf("scheme random, Length %d: position %d is never %s, whichever single draw is changed", L, i, map[bool]string{true: "left uncapitalised", false: "capitalised"}[capSeen[i][1]]), rp)
					return
				}
			case "one":
				if !onlyCap[i] {
					c.Violation(key+" caps", fmt.Sprintf("scheme one, Length %d: position %d is never the capitalised one", L, i), rp)
					return
				}
			}
		}
		if i < L-1 && len(seps) > 1 {
			for _, sp := range seps {
				if sp != "" && !sepSeen[i][sp] {
					c.Violation(key+" separator", fmt.Sprintf("separator %q never appears in gap %d", sp, i), rp)
					return
				}
			}
		}
	}
	c.Outcome(fmt.Sprintf("coverage L=%d %s", L, w.Cap))
}

// c04Huge: single-deviation coverage of every word of an n-word list at every
// position of an L-word password.
func c04Huge(c *core.Ctx, n, L int) {
	ws := make([]string, n)
	for i := range ws {
		ws[i] = fmt.Sprintf("w%dx", i)
	}
	for r := uint32(0); r < uint32(n); r++ {
		cal.Rep(uint32(n), r) // calibrate outside any Read
	}
	c04Coverage(c, WLCase{Words: ws, Length: L, Cap: "none", Sep: Sep{Kind: "none"}})
}

func c04Run(c *core.Ctx) {
	maxLeaves := int64(6000)
	lengths := []int{1, 2, 3}
	if c.Thorough() {
		maxLeaves = 300000
	}
	cases := wlCases(maxLeaves, lengths)
	// biggest first so that shards balance
	for _, w := range cases {
		if !c.Mine() {
			continue
		}
		if c.Expired() {
			c.Incomplete("deadline")
			return
		}
		c04Case(c, w, maxLeaves*4)
	}
	// very large lists (index arithmetic beyond 16 bits): every word at every position
	huge := []int{65535, 65536, 70000}
	if c.Thorough() {
		huge = []int{4097, 65535, 65536, 65537, 70000, 100003, 131072}
	}
	for _, n := range huge {
		if !c.Mine() {
			continue
		}
		c04Huge(c, n, 2)
	}
	// long recipes: single-deviation coverage
	longL := []int{4, 8, 16, 17, 18, 33, 64, 65, 130}
	if c.Thorough() {
		longL = []int{4, 5, 7, 8, 9, 15, 16, 17, 18, 31, 32, 33, 34, 63, 64, 65, 66, 127, 128, 129, 130, 255, 256, 257, 300}
	}
	for _, L := range longL {
		for _, ws := range [][]string{{"ab"}, {"ab", "cd"}, {"ab", "cd", "efg"}} {
			for _, cp := range wlSchemes {
				for _, sp := range []Sep{{Kind: "none"}, {Kind: "char", Char: "-"}, {Kind: "SFDigits1"}} {
					if L > 33 && (len(ws) > 2 || sp.Kind == "SFDigits1") {
						continue // long recipes: small lists, constant separators
					}
					if c.Mine() {
						c04Coverage(c, WLCase{Words: ws, Length: L, Cap: cp, Sep: sp})
					}
				}
			}
		}
	}
}

func init() {
	Register(&core.Check{
		ID:    "C04",
		Level: "model_checking",
		Rule: "for each wordlist case (10 lists incl. sizes 1,2,3,5, twins, caseless, pre-capitalised, non-ASCII x lengths 1-3 x 5 schemes x 10 separator settings, cells up to 6000 leaves quick / 300000 thorough) every combination of outcomes of every bounded draw of the real Generate is executed; the exact rational probability of every token sequence must equal the uniform independent product pushed through title-casing; " +
			"for lengths 4-33 (thorough to 65) every execution with at most one deviating draw, with a coverage oracle (each word at each position, each capitalisation pattern coordinate, each separator value in each gap); non-trivial = cases whose cell returns more than one distinct password",
		Assume:      []string{"C01 per-draw uniformity", "lists violating the title-casing premise are skipped when capitalisation is on", "separator recipes that need retries are outside complete cells (covered deviation-bounded in C05)"},
		Run:         c04Run,
		DistinctKey: "cases_with_several_outputs",
	})
	Replayers["C04"] = func(raw json.RawMessage) (string, bool) {
		var rp struct {
			Case WLCase `json:"case"`
			Mode string `json:"mode"`
		}
		json.Unmarshal(raw, &rp)
		c := &core.Ctx{ID: "C04", Tier: "quick", NShards: 1}
		if rp.Mode == "coverage" {
			c04Coverage(c, rp.Case)
		} else {
			c04Case(c, rp.Case, 2000000)
		}
		return fmt.Sprintf("case %s: %d violation(s) %v", mustJSON(rp.Case), c.R.NViol, c.R.Violations), c.R.NViol > 0
	}
}
