package checks

import (
	"encoding/json"
	"fmt"
	"strings"

	"verif/harness/core"
	"verif/harness/ref"
)

// ---------- C05: wordlist password structure ----------

// c05Leaf checks one generated password against the case's grammar.
func c05Leaf(w WLCase, out GenOut) string {
	kept, _ := ref.Normalise(w.Words)
	keptSet := map[string]bool{}
	titleOf := map[string]bool{} // title forms of kept words that change
	for _, k := range kept {
		keptSet[k] = true
		if t := ref.Title(k); t != k {
			titleOf[t] = true
		}
	}
	seps, _, _ := w.sepModel()
	sepSet := map[string]bool{}
	nonEmpty := false
	for _, s := range seps {
		sepSet[s] = true
		if s != "" {
			nonEmpty = true
		}
	}
	L := w.Length
	canEmpty, canFull := false, false
	for _, sv := range seps {
		if sv == "" {
			canEmpty = true
		} else {
			canFull = true
		}
	}
	_ = nonEmpty
	var atoms, sp []string
	var concat strings.Builder
	// grammar: atom ( [separator] atom )*, the separator mandatory when the
	// setting cannot yield "", forbidden when it can yield nothing else
	i := 0
	for i < len(out.Toks) {
		t := out.Toks[i]
		if t.T != 1 {
			return fmt.Sprintf("token %d (%q) should be an atom", i, t.V)
		}
		atoms = append(atoms, t.V)
		concat.WriteString(t.V)
		i++
		if i == len(out.Toks) {
			break
		}
		if out.Toks[i].T == 0 {
			sv := out.Toks[i].V
			if sv == "" || !sepSet[sv] {
				return fmt.Sprintf("separator token %q is not one the separator setting can produce", sv)
			}
			sp = append(sp, sv)
			concat.WriteString(sv)
			i++
			if i == len(out.Toks) {
				return "the password ends with a separator"
			}
		} else if !canEmpty {
			return fmt.Sprintf("no separator between atoms %d and %d although the separator is never empty", len(atoms)-1, len(atoms))
		}
	}
	if len(sp) > 0 && !canFull {
		return "separator tokens present although the separator is empty"
	}
	if len(atoms) != L {
		return fmt.Sprintf("%d atoms, Length is %d", len(atoms), L)
	}
	if concat.String() != out.Str {
		return fmt.Sprintf("String() = %q, concatenation of tokens = %q", out.Str, concat.String())
	}
	if strings.Join(out.Atoms, "\x00") != strings.Join(atoms, "\x00") || len(out.Atoms) != len(atoms) {
		return fmt.Sprintf("Atoms() = %q, atom tokens are %q", out.Atoms, atoms)
	}
	if strings.Join(out.Seps, "\x00") != strings.Join(sp, "\x00") || len(out.Seps) != len(sp) {
		return fmt.Sprintf("Separators() = %q, separator tokens are %q", out.Seps, sp)
	}
	// capitalisation: per position definitely capitalised / definitely not / unknown
	const (
		unk = iota
		capd
		plain
	)
	st := make([]int, L)
	for i, a := range atoms {
		switch {
		case keptSet[a] && ref.Title(a) != a:
			st[i] = plain
		case keptSet[a]:
			st[i] = unk // does not change under title-casing
		case titleOf[a]:
			st[i] = capd
		default:
			return fmt.Sprintf("atom %q is neither a word of the list nor the title-cased form of one", a)
		}
	}
	nCap, nUnk := 0, 0
	for _, s := range st {
		if s == capd {
			nCap++
		}
		if s == unk {
			nUnk++
		}
	}
	switch w.Cap {
	case "none":
		if nCap != 0 {
			return fmt.Sprintf("scheme none but %q has a capitalised word", out.Str)
		}
	case "first":
		if st[0] == plain {
			return fmt.Sprintf("scheme first but the first word of %q is not capitalised", out.Str)
		}
		for i := 1; i < L; i++ {
			if st[i] == capd {
				return fmt.Sprintf("scheme first but word %d of %q is capitalised", i, out.Str)
			}
		}
	case "all":
		for i := range st {
			if st[i] == plain {
				return fmt.Sprintf("scheme all but word %d of %q is not capitalised", i, out.Str)
			}
		}
	case "one":
		if nCap > 1 || nCap == 0 && nUnk == 0 {
			return fmt.Sprintf("scheme one but %q has %d capitalised words", out.Str, nCap)
		}
	case "random":
	default:
		// undocumented scheme string: only the scheme-independent part is checked
	}
	return ""
}

func c05Case(c *core.Ctx, w WLCase, opt CellOpt) {
	key := "case " + mustJSON(w)
	r, err := w.build()
	if err != nil {
		c.Violation(key+" build", "NewWordList failed: "+err.Error(), map[string]interface{}{"case": w})
		return
	}
	bad := false
	st := exploreCell(r.Generate, opt, func(l *Leaf) {
		if bad || l.Out.Aborted {
			return
		}
		rp := map[string]interface{}{"case": w, "outcomes": l.Outs, "bounds": l.Bounds}
		switch {
		case l.Out.Panic != "":
			c.Violation(key+" panic", "Generate panicked: "+l.Out.Panic, rp)
			bad = true
		case !l.Out.HasPw:
			c.Violation(key+" error", "Generate failed: "+l.Out.Err, rp)
			bad = true
		default:
			if msg := c05Leaf(w, l.Out); msg != "" {
				c.Violation(key+" structure", msg, rp)
				bad = true
			}
			c.Outcome(tokKey(l.Out.Toks))
		}
	})
	c.Count("executions", st.Leaves)
	c.Count("nodes", st.Nodes)
	c.Count("edges", st.Edges)
	c.Count("cases_explored", 1)
	if st.Capped {
		c.Incomplete("cell of %s capped", mustJSON(w))
	}
	if w.Length > 1 {
		c.Sample(map[string]interface{}{"case": w, "leaves": st.Leaves})
	}
}

func longWord(ch string, n int) string { return strings.Repeat(ch, n) }

func c05Run(c *core.Ctx) {
	maxLeaves := int64(6000)
	if c.Thorough() {
		maxLeaves = 300000
	}
	var cases []WLCase
	cases = append(cases, wlCases(maxLeaves, []int{1, 2, 3})...)
	// extras: unknown schemes, long words, L=4, multi-byte separators
	for _, cp := range []string{"", "ALL", "bogus", "None"} {
		for _, sp := range []Sep{{Kind: "none"}, {Kind: "char", Char: "-"}, {Kind: "SFDigits1"}} {
			cases = append(cases, WLCase{Words: []string{"ab", "cd"}, Length: 2, Cap: cp, Sep: sp})
		}
	}
	for _, cp := range wlSchemes {
		cases = append(cases,
			WLCase{Words: []string{longWord("a", 255), "b"}, Length: 2, Cap: cp, Sep: Sep{Kind: "char", Char: "¡¿"}},
			WLCase{Words: []string{"ab", "cd"}, Length: 4, Cap: cp, Sep: Sep{Kind: "char", Char: "-"}},
			WLCase{Words: []string{"ab", "Cd", "ef"}, Length: 3, Cap: cp, Sep: Sep{Kind: "char", Char: " "}},
			WLCase{Words: []string{"ab", "cd"}, Length: 5, Cap: cp, Sep: Sep{Kind: "none"}},
		)
	}
	for _, w := range cases {
		if !c.Mine() {
			continue
		}
		if c.Expired() {
			c.Incomplete("deadline")
			return
		}
		c05Case(c, w, CellOpt{DepthCut: 64, Fallback: 2, MaxMenu: 20000, MaxLeaves: maxLeaves * 4, Dev: -1})
	}
	// long passwords: every execution with at most one deviating draw
	// (position-dependent behaviour that only starts at 16/32/64/256 words)
	longL := []int{16, 17, 32, 33, 64, 65, 66, 130, 257}
	if c.Thorough() {
		longL = []int{15, 16, 17, 31, 32, 33, 63, 64, 65, 66, 127, 128, 129, 130, 255, 256, 257, 300, 1000}
	}
	for _, L := range longL {
		for _, cp := range wlSchemes {
			for _, ws := range [][]string{{"ab"}, {"ab", "cd"}} {
				for _, sp := range []Sep{{Kind: "none"}, {Kind: "char", Char: "-"}, {Kind: "customMixed"}} {
					if L > 130 && (len(ws) > 1 || sp.Kind == "customMixed") {
						continue
					}
					if c.Mine() {
						c05Case(c, WLCase{Words: ws, Length: L, Cap: cp, Sep: sp}, CellOpt{DepthCut: 3*L + 8, Fallback: 2, MaxMenu: 1 << 17, MaxLeaves: 500000, Dev: 1})
						c.Count("long_length_cases", 1)
					}
				}
			}
		}
	}
	// separator recipes that need retries: deviation-bounded (<= 2, thorough 3)
	dev := 2
	if c.Thorough() {
		dev = 3
	}
	for _, cp := range wlSchemes {
		for _, L := range []int{2, 3} {
			w := WLCase{Words: []string{"ab", "cd", "efg"}, Length: L, Cap: cp, Sep: Sep{Kind: "sf", Recipe: &ref.CharRecipe{Length: 2, AllowChars: "ab", RequireSets: []string{"1"}}}}
			if c.Mine() {
				c05Case(c, w, CellOpt{DepthCut: 40, Fallback: 2, MaxMenu: 20000, MaxLeaves: 2000000, Dev: dev})
				c.Count("deviation_bounded_cases", 1)
			}
		}
	}
}

func init() {
	Register(&core.Check{
		ID:    "C05",
		Level: "model_checking",
		Rule: "every leaf of the complete cells of the wordlist configuration set of C04 (all outcome combinations of all draws on the real Generate), plus unknown scheme strings, 255-character words, lengths 4-5, multi-byte separators, lengths 16-257 (thorough to 1000) with at most one deviating draw, title-casing corner-case words, a caller-written separator that is sometimes empty, and separator recipes with retries explored with at most 2 (thorough 3) deviating draws; each returned password is checked against the token grammar of its scheme; " +
			"non-trivial = distinct token sequences observed",
		Assume: []string{"positions holding a word that does not change under title-casing are not used to decide the capitalisation pattern", "word lists with the empty word are outside the explored alphabet"},
		Run:    c05Run,
	})
	Replayers["C05"] = func(raw json.RawMessage) (string, bool) {
		var rp struct {
			Case WLCase `json:"case"`
		}
		json.Unmarshal(raw, &rp)
		c := &core.Ctx{ID: "C05", Tier: "quick", NShards: 1}
		c05Case(c, rp.Case, CellOpt{DepthCut: 40, Fallback: 2, MaxMenu: 20000, MaxLeaves: 2000000, Dev: 3})
		return fmt.Sprintf("case %s: %d violation(s) %v", mustJSON(rp.Case), c.R.NViol, c.R.Violations), c.R.NViol > 0
	}
}
