package checks

import (
	"encoding/json"
	"fmt"
	"io"
	"strings"

	"go.1password.io/spg"
	"verif/harness/core"
	"verif/harness/ref"
	"verif/harness/tape"
)

// ---------- C05: wordlist password structure ----------

// c05Leaf checks one generated password against the case's grammar.
func c05Leaf(w WLCase, out GenOut) string {
	kept, _ := ref.Normalise(w.Words)
	keptSet := map[string]bool{}
	titleOf := map[string]bool{} // title forms of kept words that change
	for _, k := range kept {
		keptSet[k] = true
		if t := ref.Title(k); t != k {
			titleOf[t] = true
		}
	}
	seps, _, _ := w.sepModel()
	sepSet := map[string]bool{}
	nonEmpty := false
	for _, s := range seps {
		sepSet[s] = true
		if s != "" {
			nonEmpty = true
		}
	}
	L := w.Length
	canEmpty, canFull := false, false
	for _, sv := range seps {
		if sv == "" {
			canEmpty = true
		} else {
			canFull = true
		}
	}
	_ = nonEmpty
	var atoms, sp []string
	var concat strings.Builder
	// grammar: atom ( [separator] atom )*, the separator mandatory when the
	// setting cannot yield "", forbidden when it can yield nothing else
	i := 0
	for i < len(out.Toks) {
		t := out.Toks[i]
		if t.T != 1 {
			return fmt.Sprintf("token %d (%q) should be an atom", i, t.V)
		}
		atoms = append(atoms, t.V)
		concat.WriteString(t.V)
		i++
		if i == len(out.Toks) {
			break
		}
		if out.Toks[i].T == 0 {
			sv := out.Toks[i].V
			if sv == "" || !sepSet[sv] {
				return fmt.Sprintf("separator token %q is not one the separator setting can produce", sv)
			}
			sp = append(sp, sv)
			concat.WriteString(sv)
			i++
			if i == len(out.Toks) {
				return "the password ends with a separator"
			}
		} else if !canEmpty {
			return fmt.Sprintf("no separator between atoms %d and %d although the separator is never empty", len(atoms)-1, len(atoms))
		}
	}
	if len(sp) > 0 && !canFull {
		return "separator tokens present although the separator is empty"
	}
	if len(atoms) != L {
		return fmt.Sprintf("%d atoms, Length is %d", len(atoms), L)
	}
	if concat.String() != out.Str {
		return fmt.Sprintf("String() = %q, concatenation of tokens = %q", out.Str, concat.String())
	}
	if strings.Join(out.Atoms, "\x00") != strings.Join(atoms, "\x00") || len(out.Atoms) != len(atoms) {
		return fmt.Sprintf("Atoms() = %q, atom tokens are %q", out.Atoms, atoms)
	}
	if strings.Join(out.Seps, "\x00") != strings.Join(sp, "\x00") || len(out.Seps) != len(sp) {
		return fmt.Sprintf("Separators() = %q, separator tokens are %q", out.Seps, sp)
	}
	// capitalisation: per position definitely capitalised / definitely not / unknown
	const (
		unk = iota
		capd
		plain
	)
	st := make([]int, L)
	for i, a := range atoms {
		switch {
		case keptSet[a] && ref.Title(a) != a:
			st[i] = plain
		case keptSet[a]:
			st[i] = unk // does not change under title-casing
		case titleOf[a]:
			st[i] = capd
		default:
			return fmt.Sprintf("atom %q is neither a word of the list nor the title-cased form of one", a)
		}
	}
	nCap, nUnk := 0, 0
	for _, s := range st {
		if s == capd {
			nCap++
		}
		if s == unk {
			nUnk++
		}
	}
	switch w.Cap {
	case "none":
		if nCap != 0 {
			return fmt.Sprintf("scheme none but %q has a capitalised word", out.Str)
		}
	case "first":
		if st[0] == plain {
			return fmt.Sprintf("scheme first but the first word of %q is not capitalised", out.Str)
		}
		for i := 1; i < L; i++ {
			if st[i] == capd {
				return fmt.Sprintf("scheme first but word %d of %q is capitalised", i, out.Str)
			}
		}
	case "all":
		for i := range st {
			if st[i] == plain {
				return fmt.Sprintf("scheme all but word %d of %q is not capitalised", i, out.Str)
			}
		}
	case "one":
		if nCap > 1 || nCap == 0 && nUnk == 0 {
			return fmt.Sprintf("scheme one but %q has %d capitalised words", out.Str, nCap)
		}
	case "random":
	default:
		// undocumented scheme string: only the scheme-independent part is checked
	}
	return ""
}

func c05Case(c *core.Ctx, w WLCase, opt CellOpt) {
	key := "case " + mustJSON(w)
	r, err := w.build()
	if err != nil {
		c.Violation(key+" build", "NewWordList failed: "+err.Error(), map[string]interface{}{"case": w})
		return
	}
	bad := false
	st := exploreCell(r.Generate, opt, func(l *Leaf) {
		if bad || l.Out.Aborted {
			return
		}
		rp := map[string]interface{}{"case": w, "outcomes": l.Outs, "bounds": l.Bounds}
		switch {
		case l.Out.Panic != "":
			c.Violation(key+" panic", "Generate panicked: "+l.Out.Panic, rp)
			bad = true
		case !l.Out.HasPw:
			c.Violation(key+" error", "Generate failed: "+l.Out.Err, rp)
			bad = true
		default:
			if msg := c05Leaf(w, l.Out); msg != "" {
				c.Violation(key+" structure", msg, rp)
				bad = true
			}
			c.Outcome(tokKey(l.Out.Toks))
		}
	})
	c.Count("executions", st.Leaves)
	c.Count("nodes", st.Nodes)
	c.Count("edges", st.Edges)
	c.Count("cases_explored", 1)
	if st.Capped {
		c.Incomplete("cell of %s capped", mustJSON(w))
	}
	if w.Length > 1 {
		c.Sample(map[string]interface{}{"case": w, "leaves": st.Leaves})
	}
}

func longWord(ch string, n int) string { return strings.Repeat(ch, n) }

func c05Run(c *core.Ctx) {
	maxLeaves := int64(6000)
	if c.Thorough() {
		maxLeaves = 300000
	}
	var cases []WLCase
	cases = append(cases, wlCases(maxLeaves, []int{1, 2, 3})...)
	// extras: unknown schemes, long words, L=4, multi-byte separators
	for _, cp := range []string{"", "ALL", "bogus", "None"} {
		for _, sp := range []Sep{{Kind: "none"}, {Kind: "char", Char: "-"}, {Kind: "SFDigits1"}} {
			cases = append(cases, WLCase{Words: []string{"ab", "cd"}, Length: 2, Cap: cp, Sep: sp})
		}
	}
	for _, cp := range wlSchemes {
		cases = append(cases,
			WLCase{Words: []string{longWord("a", 255), "b"}, Length: 2, Cap: cp, Sep: Sep{Kind: "char", Char: "¡¿"}},
			WLCase{Words: []string{"ab", "cd"}, Length: 4, Cap: cp, Sep: Sep{Kind: "char", Char: "-"}},
			WLCase{Words: []string{"ab", "Cd", "ef"}, Length: 3, Cap: cp, Sep: Sep{Kind: "char", Char: " "}},
			WLCase{Words: []string{"ab", "cd"}, Length: 5, Cap: cp, Sep: Sep{Kind: "none"}},
		)
	}
	for _, w := range cases {
		if !c.Mine() {
			continue
		}
		if c.Expired() {
			c.Incomplete("deadline")
			return
		}
		c05Case(c, w, CellOpt{DepthCut: 64, Fallback: 2, MaxMenu: 20000, MaxLeaves: maxLeaves * 4, Dev: -1})
	}
	// long passwords: every execution with at most one deviating draw
	// (position-dependent behaviour that only starts at 16/32/64/256 words)
	longL := []int{16, 17, 32, 33, 64, 65, 66, 130, 257}
	if c.Thorough() {
		longL = []int{15, 16, 17, 31, 32, 33, 63, 64, 65, 66, 127, 128, 129, 130, 255, 256, 257, 300, 1000}
	}
	for _, L := range longL {
		for _, cp := range wlSchemes {
			for _, ws := range [][]string{{"ab"}, {"ab", "cd"}} {
				for _, sp := range []Sep{{Kind: "none"}, {Kind: "char", Char: "-"}, {Kind: "customMixed"}} {
					if L > 130 && (len(ws) > 1 || sp.Kind == "customMixed") {
						continue
					}
					if c.Mine() {
						c05Case(c, WLCase{Words: ws, Length: L, Cap: cp, Sep: sp}, CellOpt{DepthCut: 3*L + 8, Fallback: 2, MaxMenu: 1 << 17, MaxLeaves: 500000, Dev: 1})
						c.Count("long_length_cases", 1)
					}
				}
			}
		}
	}
	c05Recorded(c)
	c05Faults(c)
	// separator recipes that need retries: deviation-bounded (<= 2, thorough 3)
	dev := 2
	if c.Thorough() {
		dev = 3
	}
	for _, cp := range wlSchemes {
		for _, L := range []int{2, 3} {
			w := WLCase{Words: []string{"ab", "cd", "efg"}, Length: L, Cap: cp, Sep: Sep{Kind: "sf", Recipe: &ref.CharRecipe{Length: 2, AllowChars: "ab", RequireSets: []string{"1"}}}}
			if c.Mine() {
				c05Case(c, w, CellOpt{DepthCut: 40, Fallback: 2, MaxMenu: 20000, MaxLeaves: 2000000, Dev: dev})
				c.Count("deviation_bounded_cases", 1)
			}
		}
	}
}

// c05Recorded: a caller-written separator function whose i-th call returns
// either nothing or a string unique to that call. Every pattern of empty and
// non-empty answers over the calls is enumerated. Each gap of the password must
// hold the answer of one particular call - the same call for every pattern,
// whichever order the library asks in and whatever calls it makes for other
// purposes (entropy): a gap whose source depends on the values returned is
// not "a fresh draw from the separator function" any more. An empty answer
// leaves its gap without a token.
func c05Recorded(c *core.Ctx) {
	maxL := 5
	if c.Thorough() {
		maxL = 7
	}
	wl, _ := spg.NewWordList([]string{"ab", "cd", "efg"})
	for L := 2; L <= maxL; L++ {
		for _, flavour := range []string{"s", "·", "--"} {
			for _, cp := range []string{"none", "all"} {
				if !c.Mine() {
					continue // all patterns of one (L, flavour, scheme) in one process
				}
				ncall := L + 1 // up to two calls beyond the gaps
				rpg := map[string]interface{}{"recorded": true, "length": L, "flavour": flavour, "cap": cp}
				gkey := fmt.Sprintf("recorded L=%d %s %s", L, flavour, cp)
				// cand[g][i]: call i can be the source of gap g in every pattern so far
				cand := make([][]bool, L-1)
				for g := range cand {
					cand[g] = make([]bool, ncall+4)
					for i := range cand[g] {
						cand[g][i] = true
					}
				}
				failed := false
				for pat := 0; pat < 1<<uint(ncall) && !failed; pat++ {
					var calls []string
					r := spg.NewWLRecipe(L, wl)
					r.Capitalize = spg.CapScheme(cp)
					r.SeparatorFunc = func() (string, spg.FloatE) {
						i := len(calls)
						v := ""
						if i >= ncall || pat>>uint(i)&1 == 1 {
							v = fmt.Sprintf("%s%d", flavour, i)
						}
						calls = append(calls, v)
						return v, 1
					}
					install(policyTape(func(b uint32, i int) uint32 { return uint32(i + pat) }))
					out := runGen(r.Generate)
					c.Count("executions", 1)
					c.Count("recorded_separator_runs", 1)
					key := fmt.Sprintf("%s pattern=%b", gkey, pat)
					if !out.HasPw || out.Panic != "" {
						c.Violation(key+" failed", "Generate failed: "+out.Err+out.Panic, rpg)
						failed = true
						break
					}
					// gaps of the returned token sequence
					var gaps []string
					bad := ""
					natoms := 0
					for i := 0; i < len(out.Toks); i++ {
						t := out.Toks[i]
						if t.T == 1 {
							natoms++
							if natoms > 1 && len(gaps) < natoms-1 {
								gaps = append(gaps, "")
							}
							continue
						}
						if natoms == 0 || len(gaps) >= natoms || i == len(out.Toks)-1 || t.V == "" {
							bad = fmt.Sprintf("separator token %q at token position %d is leading, trailing, doubled or empty", t.V, i)
							break
						}
						gaps = append(gaps, t.V)
					}
					if bad == "" && natoms != L {
						bad = fmt.Sprintf("%d atoms, Length is %d", natoms, L)
					}
					if bad == "" {
						for g, gv := range gaps {
							any := false
							for i := range cand[g] {
								if cand[g][i] && (i >= len(calls) || calls[i] != gv) {
									cand[g][i] = false
								}
								any = any || cand[g][i]
							}
							if !any {
								bad = fmt.Sprintf("gap %d holds %q while the separator function returned, in order, %q: no single call of the function accounts for this gap here and in the earlier patterns (the gaps are %q)", g, gv, calls, gaps)
								break
							}
						}
					}
					if bad != "" {
						c.Violation(key+" structure", bad, rpg)
						failed = true
					}
					c.Outcome("recorded " + strings.Join(gaps, "|"))
				}
				if failed {
					continue
				}
				// the gaps must come from distinct calls
				used := map[int]bool{}
				var assign func(g int) bool
				assign = func(g int) bool {
					if g == len(cand) {
						return true
					}
					for i, ok := range cand[g] {
						if ok && !used[i] {
							used[i] = true
							if assign(g + 1) {
								return true
							}
							used[i] = false
						}
					}
					return false
				}
				if !assign(0) {
					c.Violation(gkey+" shared", "two gaps of the password are fed by the same call of the separator function", rpg)
				}
			}
		}
	}
}

// c05Faults: the random source fails once, at read k, for every k of the
// generation (and works again afterwards). Whatever Generate then does - panic,
// error - a password it does return must still have the promised structure.
func c05Faults(c *core.Ctx) {
	for _, w := range []WLCase{
		{Words: []string{"ab", "cd", "efg"}, Length: 3, Cap: "random", Sep: Sep{Kind: "SFDigits1"}},
		{Words: []string{"ab", "cd", "efg"}, Length: 4, Cap: "one", Sep: Sep{Kind: "SFDigits2"}},
		{Words: []string{"ab", "cd"}, Length: 3, Cap: "none", Sep: Sep{Kind: "SFSymbols"}},
		{Words: []string{"ab", "cd"}, Length: 3, Cap: "all", Sep: Sep{Kind: "sf", Recipe: &ref.CharRecipe{Length: 2, Allow: ref.Digits}}},
	} {
		if !c.Mine() {
			continue
		}
		r, err := w.build()
		if err != nil {
			continue
		}
		// reads of a fault-free generation
		t0 := policyTape(func(b uint32, i int) uint32 { return uint32(i) })
		install(t0)
		runGen(r.Generate)
		n := t0.Reads
		for k := 1; k <= n+2; k++ {
			for _, deliver := range []int{0, 2} {
				t := policyTape(func(b uint32, i int) uint32 { return uint32(i) })
				t.FaultAt, t.Fault = k, tape.Fault{Deliver: deliver, Err: io.ErrUnexpectedEOF}
				install(t)
				out := runGen(r.Generate)
				c.Count("executions", 1)
				c.Count("fault_runs", 1)
				if out.HasPw {
					c.Count("fault_runs_returning_a_password", 1)
					if msg := c05Leaf(w, out); msg != "" {
						c.Violation("fault "+mustJSON(w)+" structure", fmt.Sprintf("the source failed once at read %d (%d bytes delivered) and Generate returned %q: %s", k, deliver, out.Str, msg),
							map[string]interface{}{"case": w, "fault_at_read": k, "deliver": deliver})
						break
					}
				}
			}
		}
	}
	install(tape.New(&tape.Script{}))
}

func init() {
	Register(&core.Check{
		ID:    "C05",
		Level: "model_checking",
		Rule: "every leaf of the complete cells of the wordlist configuration set of C04 (all outcome combinations of all draws on the real Generate), plus unknown scheme strings, 255-character words, lengths 4-5, multi-byte separators, lengths 16-257 (thorough to 1000) with at most one deviating draw, title-casing corner-case words, a caller-written separator that is sometimes empty, and separator recipes with retries explored with at most 2 (thorough 3) deviating draws; each returned password is checked against the token grammar of its scheme; " +
			"non-trivial = distinct token sequences observed",
		Assume: []string{"positions holding a word that does not change under title-casing are not used to decide the capitalisation pattern", "word lists with the empty word are outside the explored alphabet"},
		Run:    c05Run,
	})
	Replayers["C05"] = func(raw json.RawMessage) (string, bool) {
		var rp struct {
			Case     WLCase `json:"case"`
			Recorded bool   `json:"recorded"`
			FaultAt  int    `json:"fault_at_read"`
		}
		json.Unmarshal(raw, &rp)
		c := &core.Ctx{ID: "C05", Tier: "quick", NShards: 1}
		switch {
		case rp.Recorded:
			c05Recorded(c)
			return fmt.Sprintf("recorded separator functions re-enumerated: %d violation(s) %v", c.R.NViol, c.R.Violations), c.R.NViol > 0
		case rp.FaultAt > 0:
			c05Faults(c)
			return fmt.Sprintf("failing-source generations re-enumerated: %d violation(s) %v", c.R.NViol, c.R.Violations), c.R.NViol > 0
		}
		c05Case(c, rp.Case, CellOpt{DepthCut: 40, Fallback: 2, MaxMenu: 20000, MaxLeaves: 2000000, Dev: 3})
		return fmt.Sprintf("case %s: %d violation(s) %v", mustJSON(rp.Case), c.R.NViol, c.R.Violations), c.R.NViol > 0
	}
}
