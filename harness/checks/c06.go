package checks

import (
	"encoding/json"
	"fmt"
	"math"
	"math/big"

	"verif/harness/core"
	"verif/harness/ref"
	"verif/harness/tape"
)

// ---------- C06: reported entropy never overstates ----------

// c06Judge compares a reported entropy with an exact output distribution.
func c06Judge(c *core.Ctx, key string, rp map[string]interface{}, H float32, d *Dist, what string) {
	h := float64(H)
	if len(d.Mass) == 0 {
		return
	}
	// every returned Password.Entropy is bit-identical to Entropy()
	for bits, n := range d.Entropies {
		if bits != math.Float32bits(H) {
			c.Violation(key+" field", fmt.Sprintf("Entropy() = %v but %d returned passwords carry Entropy = %v", H, n, math.Float32frombits(bits)), rp)
			return
		}
	}
	if math.IsNaN(h) || math.IsInf(h, 0) {
		c.Violation(key+" nan", fmt.Sprintf("Entropy() = %v for a recipe that returns passwords", H), rp)
		return
	}
	ret := d.Returned()
	var pmax *big.Rat
	uniform := true
	var first *big.Rat
	maxKey := ""
	for _, k := range sortedKeys(d.Mass) {
		m := d.Mass[k]
		if pmax == nil || m.Cmp(pmax) > 0 {
			pmax, maxKey = m, k
		}
		if first == nil {
			first = m
		} else if first.Cmp(m) != 0 {
			uniform = false
		}
	}
	cond := new(big.Rat).Quo(pmax, ret) // conditioned on a password being returned
	minEnt := -ratLog2(cond)
	tol := 8 * ref.Ulp32(math.Max(math.Abs(h), 1))
	if minEnt < h-tol {
		c.Violation(key+" overstated", fmt.Sprintf("Entropy() = %v bits but %q is returned with probability %s = 2^-%.6f (%s)", H, maxKey, cond.RatString(), minEnt, what), rp)
		return
	}
	if uniform && math.Abs(minEnt-h) > tol {
		c.Violation(key+" not-tight", fmt.Sprintf("generation is uniform over %d passwords (%.6f bits) but Entropy() = %v", len(d.Mass), minEnt, H), rp)
		return
	}
	if !uniform {
		c.Count("nonuniform_cases", 1)
	}
	c.Outcome(fmt.Sprintf("%.4f", minEnt))
}

func c06Char(c *core.Ctx, r ref.CharRecipe) {
	sr := toSpg(r)
	lit := recipeLit(r)
	key := "recipe " + mustJSON(lit)
	rp := map[string]interface{}{"recipe": lit}
	probe, pt := runScript(sr.Generate, nil)
	if !probe.HasPw && pt.Words == 0 && !pt.Dry {
		c.Count("recipes_refused", 1)
		return
	}
	attempts := 2
	ab := r.Alphabet()
	cell := new(big.Int).Exp(big.NewInt(int64(len(ab))), big.NewInt(int64(r.Length)), nil)
	if cell.Int64() > 700 {
		attempts = 1
	}
	d, st := charCell(r, attempts, 3_000_000)
	c.Count("executions", st.Leaves)
	c.Count("nodes", st.Nodes)
	c.Count("edges", st.Edges)
	if st.Capped || st.TooWide || st.Uncalibrated || st.Unannounced > 0 {
		c.Incomplete("cell of %v not decided (capped/uncalibrated/raw reads)", lit)
		return
	}
	install(tape.New(&tape.Script{}))
	H := sr.Entropy()
	c.Count("cases_explored", 1)
	if len(d.Mass) > 1 {
		c.Count("cases_with_several_outputs", 1)
		c.Sample(map[string]interface{}{"recipe": lit, "entropy": H, "distinct_passwords": len(d.Mass)})
	}
	c06Judge(c, key, rp, H, d, "character recipe")
	if st.Leaves <= 300 && attempts >= 1 {
		d2 := newDist()
		st2 := exploreCell(sr.Generate, CellOpt{DepthCut: attempts * r.Length, Fallback: uint32(len(ab)), MaxMenu: 4096, MaxLeaves: 100000, Dev: -1, Chunk: 1}, func(l *Leaf) { d2.add(l) })
		c.Count("executions", st2.Leaves)
		c.Count("chunked_source_cells", 1)
		if !(st2.Capped || st2.TooWide || st2.Uncalibrated || st2.Unannounced > 0) {
			c06Judge(c, key+" [1-byte reads]", rp, H, d2, "character recipe, source delivering one byte per read")
		}
	}
}

func c06WL(c *core.Ctx, w WLCase, maxLeaves int64) {
	if w.Sep.Kind == "custom0" {
		return // a caller-written function that deliberately claims 0 bits: tightness does not apply
	}
	key := "case " + mustJSON(w)
	rp := map[string]interface{}{"case": w}
	kept, _ := ref.Normalise(w.Words)
	if ref.TitleCollision(kept) && w.Cap != "none" {
		c.Count("skipped_title_collision_premise", 1)
		return
	}
	r, err := w.build()
	if err != nil {
		return
	}
	d := newDist()
	st := exploreCell(r.Generate, CellOpt{DepthCut: 64, Fallback: 2, MaxMenu: 20000, MaxLeaves: maxLeaves, Dev: -1}, func(l *Leaf) { d.add(l) })
	c.Count("executions", st.Leaves)
	c.Count("nodes", st.Nodes)
	c.Count("edges", st.Edges)
	if st.Capped || st.TooWide || st.Uncalibrated || d.CutMass.Sign() != 0 || st.Unannounced > 0 {
		c.Incomplete("cell of %s not decided (capped/uncalibrated/cut/raw reads)", mustJSON(w))
		return
	}
	// Entropy() executes the separator function: give it a tape, twice
	t1 := policyTape(func(b uint32, i int) uint32 { return 0 })
	install(t1)
	H := r.Entropy()
	t2 := policyTape(func(b uint32, i int) uint32 { return b - 1 })
	install(t2)
	H2 := r.Entropy()
	if math.Float32bits(H) != math.Float32bits(H2) {
		c.Violation(key+" tape-dependent", fmt.Sprintf("Entropy() = %v on one random stream and %v on another", H, H2), rp)
		return
	}
	c.Count("cases_explored", 1)
	if len(d.Mass) > 1 {
		c.Count("cases_with_several_outputs", 1)
		if w.Cap == "random" || w.Cap == "one" {
			c.Sample(map[string]interface{}{"case": w, "entropy": H, "distinct_passwords": len(d.Mass)})
		}
	}
	c06Judge(c, key, rp, H, d, "wordlist recipe")
	// the same cell with a source that delivers one byte per read (legal for
	// an io.Reader): the distribution, hence the entropy bound, must not change
	if st.Leaves <= 600 {
		d2 := newDist()
		st2 := exploreCell(r.Generate, CellOpt{DepthCut: 64, Fallback: 2, MaxMenu: 20000, MaxLeaves: maxLeaves, Dev: -1, Chunk: 1}, func(l *Leaf) { d2.add(l) })
		c.Count("executions", st2.Leaves)
		c.Count("chunked_source_cells", 1)
		if !(st2.Capped || st2.TooWide || st2.Uncalibrated || d2.CutMass.Sign() != 0 || st2.Unannounced > 0) {
			c06Judge(c, key+" [1-byte reads]", rp, H, d2, "wordlist recipe, source delivering one byte per read")
		}
	}
}

// c06Consumed: for recipes whose cell is out of reach (long passwords) the
// entropy claim is checked against a pigeonhole bound that holds for any
// implementation: a generation that makes draws of sizes s1..sk can produce at
// most s1*...*sk different passwords, so the min-entropy - and therefore
// Entropy() - cannot exceed the sum of log2(si). Sizes are the announced
// bounds, 2^32 for a raw word; the maximum over all executions with at most
// one deviating draw is used (wordlist generation without retrying separators
// makes the same draws on every path).
func c06Consumed(c *core.Ctx, w WLCase) {
	r, err := w.build()
	if err != nil {
		return
	}
	key := "consumed " + mustJSON(w)
	maxBits := 0.0
	raw := false
	st := exploreCell(r.Generate, CellOpt{DepthCut: 4*w.Length + 8, Fallback: 2, MaxMenu: 1 << 17, MaxLeaves: 2_000_000, Dev: 1, Log: true}, func(l *Leaf) {
		if l.Out.Aborted || !l.Out.HasPw {
			return
		}
		bits := 0.0
		for i, d := range l.Tape.Log {
			_ = i
			if d.Cont {
				continue // a redraw of the same draw
			}
			if d.Announced {
				bits += math.Log2(float64(d.Bound))
			} else {
				bits += 32
				raw = true
			}
		}
		if bits > maxBits {
			maxBits = bits
		}
	})
	c.Count("executions", st.Leaves)
	c.Count("nodes", st.Nodes)
	c.Count("edges", st.Edges)
	c.Count("consumed_randomness_cases", 1)
	if st.Capped || st.TooWide || st.Uncalibrated {
		c.Incomplete("exploration of %s capped", mustJSON(w))
		return
	}
	install(policyTape(func(b uint32, i int) uint32 { return 0 }))
	H := float64(r.Entropy())
	if H > maxBits+8*ref.Ulp32(math.Max(H, 1)) {
		c.Violation(key, fmt.Sprintf("Entropy() = %v bits, but one generation consumes draws worth only %.4f bits (raw 32-bit reads: %v): fewer than 2^Entropy passwords can ever be produced, so some password is likelier than 2^-Entropy", H, maxBits, raw), map[string]interface{}{"case": w, "mode": "consumed"})
	}
	c.Outcome(fmt.Sprintf("consumed L=%d %.3f>=%.3f", w.Length, maxBits, H))
}

func c06Run(c *core.Ctx) {
	// a coordinate that can never take one of its values (a position that is
	// never capitalised ...) shrinks the set of possible passwords below the
	// 2^Entropy() the recipe claims: the coverage exploration of C04, judged
	// here for recipes whose entropy includes the capitalisation bonus
	for _, L := range []int{17, 33, 65, 130} {
		for _, cp := range []string{"random", "one"} {
			for _, ws := range [][]string{{"ab"}, {"ab", "cd"}} {
				if c.Mine() {
					c04Coverage(c, WLCase{Words: ws, Length: L, Cap: cp, Sep: Sep{Kind: "none"}})
				}
			}
		}
	}
	for _, L := range []int{8, 16, 17, 32, 33, 64, 65, 130} {
		for _, ws := range [][]string{{"ab"}, {"ab", "cd"}, {"ab", "cd", "efg"}} {
			for _, cp := range wlSchemes {
				for _, sp := range []Sep{{Kind: "none"}, {Kind: "SFDigits1"}} {
					if sp.Kind != "none" && (L > 33 || len(ws) > 2) && !c.Thorough() {
						continue
					}
					if c.Mine() {
						c06Consumed(c, WLCase{Words: ws, Length: L, Cap: cp, Sep: sp})
					}
				}
			}
		}
	}
	// character recipes: the configuration set of C02 at a stride, plus all
	// class-sized cells
	rs := c02Recipes(c.Tier)
	for i, r := range rs {
		if !c.Thorough() && i%3 != 0 && r.Allow == 0 {
			continue
		}
		if !c.Mine() {
			continue
		}
		if c.Expired() {
			c.Incomplete("deadline")
			return
		}
		c06Char(c, r)
	}
	maxLeaves := int64(6000)
	if c.Thorough() {
		maxLeaves = 300000
	}
	for _, w := range wlCases(maxLeaves, []int{1, 2, 3}) {
		if !c.Mine() {
			continue
		}
		if c.Expired() {
			c.Incomplete("deadline")
			return
		}
		c06WL(c, w, maxLeaves*4)
	}
	// lists with uncapitalisable / pre-capitalised words under one and random
	extra := [][]string{{"Ab", "Cd"}, {"Ab", "cd", "ef"}, {"4", "5"}, {"ab", "Polish", "polish", "4"}, {"正確", "ab"}, {"ßx", "ab"}, {"ﬁsh", "ŉa", "cd"}, {"ĸa", "b"}}
	for _, ws := range extra {
		for _, cp := range []string{"one", "random", "first", "all"} {
			for _, L := range []int{1, 2, 3} {
				for _, sp := range []Sep{{Kind: "none"}, {Kind: "char", Char: "-"}, {Kind: "SFSymbols"}} {
					w := WLCase{Words: ws, Length: L, Cap: cp, Sep: sp}
					if n := w.cellSize(); n < 0 || n > maxLeaves {
						continue
					}
					if c.Mine() {
						c06WL(c, w, maxLeaves*4)
					}
				}
			}
		}
	}
}

func init() {
	Register(&core.Check{
		ID:    "C06",
		Level: "model_checking",
		Rule: "the exact output distributions of the complete cells of C02's character recipes and C04's wordlist cases (every outcome combination of every draw, real Generate), plus lists with uncapitalisable, pre-capitalised and twin words under 'one' and 'random'; oracle: max probability (given that a password is returned) <= 2^-Entropy() within 8 float32 ulps, equality when the distribution is uniform, Password.Entropy bit-identical to Entropy(), Entropy() independent of the random stream; small cells are explored a second time with a source that delivers one byte per read; " +
			"for wordlist recipes of 8-130 words a pigeonhole bound: Entropy() may not exceed the bits of randomness one generation consumes; non-trivial = cases returning more than one distinct password",
		Assume:      []string{"C01 per-draw uniformity", "probabilities of retrying recipes are conditioned on a password being returned"},
		Run:         c06Run,
		DistinctKey: "cases_with_several_outputs",
	})
	Replayers["C06"] = func(raw json.RawMessage) (string, bool) {
		var rp struct {
			Case   *WLCase         `json:"case"`
			Recipe *ref.CharRecipe `json:"recipe"`
		}
		json.Unmarshal(raw, &rp)
		c := &core.Ctx{ID: "C06", Tier: "quick", NShards: 1}
		if rp.Case != nil {
			c06WL(c, *rp.Case, 2000000)
		} else if rp.Recipe != nil {
			c06Char(c, *rp.Recipe)
		}
		return fmt.Sprintf("%s: %d violation(s) %v", string(raw), c.R.NViol, c.R.Violations), c.R.NViol > 0
	}
}
