package checks

import (
	"encoding/json"
	"fmt"
	"math"
	"math/big"
	"strings"

	"go.1password.io/spg"
	"verif/harness/core"
	"verif/harness/ref"
	"verif/harness/tape"
)

// ---------- C07: character entropy = log2(exact count) ----------

// subsetsOf returns the non-empty subsets of the characters of u, as strings.
func subsetsOf(u []string, withEmpty bool) []string {
	var out []string
	for m := 0; m < 1<<uint(len(u)); m++ {
		if m == 0 && !withEmpty {
			continue
		}
		s := ""
		for i, c := range u {
			if m>>uint(i)&1 == 1 {
				s += c
			}
		}
		out = append(out, s)
	}
	return out
}

// multisets returns every multiset of size 0..k over items (as index slices).
func multisets(n, k int) [][]int {
	out := [][]int{{}}
	var rec func(start int, cur []int)
	rec = func(start int, cur []int) {
		if len(cur) == k {
			return
		}
		for i := start; i < n; i++ {
			nx := append(append([]int{}, cur...), i)
			out = append(out, nx)
			rec(i, nx)
		}
	}
	rec(0, nil)
	return out
}

// c07Recipe decides C07 for one recipe.
func c07Recipe(c *core.Ctx, r ref.CharRecipe, brute bool) {
	if r.EmptiedReq() {
		c.Count("skipped_emptied_requirement", 1) // outside the property's premise
		return
	}
	sr := toSpg(r)
	lit := recipeLit(r)
	key := "recipe " + mustJSON(lit)
	t := tape.New(&tape.Script{})
	install(t)
	var e [3]float32
	var cnt *big.Int
	pan := ""
	func() {
		defer func() {
			if x := recover(); x != nil {
				pan = fmt.Sprint(x)
			}
		}()
		cnt = spg.VerifCount(sr)
		for i := range e {
			e[i] = sr.Entropy()
		}
	}()
	c.Count("executions", 1)
	if pan != "" {
		c.Violation(key+" panic", "Entropy panicked: "+pan, map[string]interface{}{"recipe": lit})
		return
	}
	if t.Words != 0 || t.Reads != 0 {
		c.Count("entropy_calls_that_read_random_bytes", 1) // odd, but not forbidden by the property
	}
	want := r.Count()
	if brute {
		if b := r.CountBrute(); big.NewInt(b).Cmp(want) != 0 {
			panic(fmt.Sprintf("model disagreement: inclusion-exclusion %s, brute force %d for %v", want, b, lit))
		}
		c.Count("brute_force_cross_checks", 1)
	}
	if want.Sign() > 0 && len(r.Req()) > 0 {
		c.Count("recipes_with_requirements", 1)
	}
	c.Outcome(want.String())
	if cnt.Cmp(want) != 0 {
		c.Violation(key+" count", fmt.Sprintf("the recipe allows exactly %s passwords; the count behind Entropy() is %s", want, cnt), map[string]interface{}{"recipe": lit})
		return
	}
	if e[0] != e[1] && !(e[0] != e[0] && e[1] != e[1]) || e[1] != e[2] && !(e[1] != e[1] && e[2] != e[2]) {
		c.Violation(key+" unstable", fmt.Sprintf("consecutive Entropy() calls returned %v %v %v", e[0], e[1], e[2]), map[string]interface{}{"recipe": lit})
		return
	}
	got := float64(e[0])
	if math.IsNaN(got) {
		c.Violation(key+" nan", "Entropy() is NaN", map[string]interface{}{"recipe": lit})
		return
	}
	if want.Sign() == 0 {
		if !math.IsInf(got, -1) {
			c.Violation(key+" zero", fmt.Sprintf("no password satisfies the recipe but Entropy() = %v, not -Inf", got), map[string]interface{}{"recipe": lit})
		}
		return
	}
	exact := ref.Log2Big(want)
	if math.Abs(got-exact) > 1.01*ref.Ulp32(exact) {
		c.Violation(key+" value", fmt.Sprintf("Entropy() = %v, log2(%s) = %v", got, want, exact), map[string]interface{}{"recipe": lit})
		return
	}
	if len(r.Req()) > 1 {
		c.Sample(map[string]interface{}{"recipe": lit, "count": want.String(), "entropy": got})
	}
}

func c07Run(c *core.Ctx) {
	if !charPairs(c) {
		return
	}
	// (a) small universe, every overlap pattern
	u := []string{"a", "b", "c", "d"}
	maxSets := 2
	lengths := []int{1, 2, 3, 4}
	if c.Thorough() {
		maxSets = 3
	}
	allowS := subsetsOf(u, true)
	reqS := subsetsOf(u, false)
	ms := multisets(len(reqS), maxSets)
	for _, al := range allowS {
		for _, ex := range allowS {
			for _, m := range ms {
				if !c.Mine() {
					continue
				}
				var rs []string
				for _, i := range m {
					rs = append(rs, reqS[i])
				}
				for _, L := range lengths {
					c07Recipe(c, ref.CharRecipe{Length: L, AllowChars: al, ExcludeChars: ex, RequireSets: rs}, L <= 3)
				}
			}
		}
		if c.Expired() {
			c.Incomplete("deadline in part (a)")
			return
		}
	}
	if c.Thorough() {
		// 5-character universe with a 2-byte character, 0-2 sets, duplicates in strings
		u5 := []string{"a", "b", "c", "é", "1"}
		s5 := subsetsOf(u5, true)
		r5 := subsetsOf(u5, false)
		for _, al := range s5 {
			for _, ex := range s5 {
				for _, m := range multisets(len(r5), 2) {
					if !c.Mine() {
						continue
					}
					var rs []string
					for _, i := range m {
						rs = append(rs, r5[i]+r5[i][:1]) // repeat a character inside the set
					}
					c07Recipe(c, ref.CharRecipe{Length: 3, AllowChars: al + al, ExcludeChars: ex, RequireSets: rs}, true)
				}
			}
		}
	}
	// (b) class flags
	customs := []ref.CharRecipe{
		{},
		{RequireSets: []string{"357"}},
		{RequireSets: []string{"aeiou", "xyz"}},
		{AllowChars: "abc1!é", ExcludeChars: "b1O"},
	}
	lens := []int{1, 2, 8, 100}
	if c.Thorough() {
		lens = []int{1, 2, 3, 8, 20, 100, 1000, 5000}
	}
	for trip := 0; trip < 1<<15; trip++ {
		al, rq, ex := uint32(trip&31), uint32(trip>>5&31), uint32(trip>>10&31)
		if !c.Thorough() {
			// quick: all 2^15 triples at one length with no custom sets,
			// the 3-class subset with everything
			sub := (al|rq|ex)&^(ref.Digits|ref.Symbols|ref.Ambiguous) == 0
			if !c.Mine() {
				continue
			}
			c07Recipe(c, ref.CharRecipe{Length: 5, Allow: al, Require: rq, Exclude: ex}, false)
			if sub {
				for _, cu := range customs {
					for _, L := range lens {
						r := cu
						r.Length, r.Allow, r.Require, r.Exclude = L, al, rq, ex
						c07Recipe(c, r, false)
					}
				}
			}
			continue
		}
		if !c.Mine() {
			continue
		}
		for _, cu := range customs {
			for _, L := range lens {
				r := cu
				r.Length, r.Allow, r.Require, r.Exclude = L, al, rq, ex
				c07Recipe(c, r, false)
			}
		}
		if c.Expired() {
			c.Incomplete("deadline in part (b)")
			return
		}
	}
	// (c) many required sets
	many := []ref.CharRecipe{
		{Length: 12, Require: ref.Uppers | ref.Lowers | ref.Digits | ref.Symbols | ref.Ambiguous},
		{Length: 12, Require: ref.Uppers | ref.Lowers | ref.Digits | ref.Symbols, RequireSets: []string{"αβγ"}},
		{Length: 10, Require: ref.All, RequireSets: []string{"αβγ", "δε"}, Allow: ref.All},
	}
	if c.Thorough() {
		many = append(many,
			ref.CharRecipe{Length: 20, Require: ref.All | ref.Ambiguous, RequireSets: []string{"αβγ", "δε"}},
			ref.CharRecipe{Length: 20, Require: ref.All | ref.Ambiguous, RequireSets: []string{"αβγ", "δεa", "ζ0"}},
			ref.CharRecipe{Length: 3000, Require: ref.All | ref.Ambiguous, RequireSets: []string{"αβγ", "δεa", "ζ0"}},
			ref.CharRecipe{Length: 8, Require: ref.All, RequireSets: []string{"ab", "bc", "cd", "de"}},
		)
	}
	for _, r := range many {
		if c.Mine() {
			c07Recipe(c, r, false)
		}
	}
	// (e) every length 1..200 (thorough 1..700) for recipes whose counts cross
	// every machine-word and float boundary (2^L exactly, 10^L, ...)
	dense := []ref.CharRecipe{
		{RequireSets: []string{"ab"}},                   // count 2^L exactly
		{AllowChars: "ab", RequireSets: []string{"cd"}}, // 4^L - 2^L
		{RequireSets: []string{"abcdefgh"}},             // 8^L
		{RequireSets: []string{"a"}},                    // 1
		{Require: ref.Digits},                           // 10^L
		{Allow: ref.Lowers, Require: ref.Digits},        // 36^L - 26^L
		{Require: ref.Digits, RequireSets: []string{"357"}},
		{Allow: ref.All, Require: ref.Digits | ref.Symbols, Exclude: ref.Ambiguous},
		{AllowChars: "abc", RequireSets: []string{"ab", "bc"}},
		{RequireSets: []string{"ab", "ba"}},
		{Allow: ref.Uppers | ref.Lowers | ref.Digits | ref.Symbols},
		{AllowChars: "abcdefghijklmnop"},                              // 16^L, no requirement
		{Allow: ref.Letters | ref.Digits, RequireSets: []string{"q"}}, // one required character among 62
	}
	big20k := ""
	for i := 0; i < 20000; i++ {
		big20k += string(rune(0x4e00 + i))
	}
	dense = append(dense, ref.CharRecipe{AllowChars: big20k, RequireSets: []string{"Ω"}}) // one among 20001
	maxL := 200
	if c.Thorough() {
		maxL = 700
	}
	sparse := map[int]bool{255: true, 256: true, 257: true, 300: true, 400: true, 512: true, 600: true, 1000: true, 1023: true, 1024: true, 1025: true, 2000: true, 4096: true}
	for _, r := range dense {
		for L := 1; L <= 4096; L++ {
			if L > maxL && !sparse[L] {
				continue
			}
			if len(r.AllowChars) > 1000 && L > 20 && !sparse[L] {
				continue
			}
			if c.Mine() {
				rr := r
				rr.Length = L
				c07Recipe(c, rr, false)
				c.Count("dense_length_evaluations", 1)
			}
		}
	}
	// (d) every iteration order of the class-flag map range (instrumented build)
	if verifrtMissing() {
		c.Incomplete("plain build: iteration order of the class map is the runtime's, not enumerated")
		return
	}
	var sub []ref.CharRecipe
	flags := []uint32{0, ref.Digits, ref.Symbols, ref.Ambiguous, ref.Digits | ref.Symbols, ref.Uppers | ref.Digits, ref.All, ref.All | ref.Ambiguous}
	for _, al := range flags {
		for _, rq := range flags {
			ex := []uint32{0, ref.Ambiguous}
			for _, e := range ex {
				sub = append(sub, ref.CharRecipe{Length: 4, Allow: al, Require: rq, Exclude: e, RequireSets: []string{"a1"}})
			}
		}
	}
	for _, r := range sub {
		if !c.Mine() || r.EmptiedReq() {
			continue
		}
		sr := toSpg(r)
		install(tape.New(&tape.Script{}))
		var first uint32
		var firstCnt string
		n := 0
		execs, _ := underAllOrders(func(site string) bool { return strings.HasPrefix(site, "char_gen.go") }, func(orders []string) bool {
			e := math.Float32bits(sr.Entropy())
			cnt := spg.VerifCount(sr).String()
			if n == 0 {
				first, firstCnt = e, cnt
			} else if e != first || cnt != firstCnt {
				c.Violation("order "+mustJSON(recipeLit(r)), fmt.Sprintf("Entropy() = %v (count %s) under class-map order %v but %v (count %s) under the first order", math.Float32frombits(e), cnt, orders, math.Float32frombits(first), firstCnt), map[string]interface{}{"recipe": recipeLit(r), "orders": append([]string{}, orders...)})
				return false
			}
			n++
			return true
		})
		c.Count("executions", execs)
		c.Count("map_order_executions", execs)
		c07Recipe(c, r, false)
	}
}

func init() {
	Register(&core.Check{
		ID:    "C07",
		Level: "model_checking",
		Build: "inst",
		Rule: "pure configuration enumeration on the real Entropy(): (a) every recipe over the universe {a,b,c,d} (all 16 allow x 16 exclude subsets x every multiset of 0-2 (thorough 0-3) required subsets x lengths 1-4), (b) all 2^15 class-flag triples (x custom sets x lengths up to 5000 in thorough), (c) 5-8 required sets, (e) 12 recipes at every length 1..200 (thorough 700), (d) 128 class-flag recipes under all 120 iteration orders of the class map (instrumented build); " +
			"oracle: exact integer count == independent inclusion-exclusion (== brute-force string enumeration for length<=3), float32 log within 1 ulp, -Inf iff 0, never NaN, 3 calls identical; non-trivial = distinct exact counts observed",
		Assume:    []string{"math/big and math.Log2 are trusted", "recipes in which exclusion empties a required set are outside the premise and skipped (counted)"},
		Run:       c07Run,
		StatesKey: "executions", TransKey: "executions",
	})
	Replayers["C07"] = func(raw json.RawMessage) (string, bool) {
		var rp struct {
			Recipe ref.CharRecipe `json:"recipe"`
		}
		json.Unmarshal(raw, &rp)
		c := &core.Ctx{ID: "C07", Tier: "quick", NShards: 1}
		c07Recipe(c, rp.Recipe, false)
		return fmt.Sprintf("recipe %+v: %d violation(s) %v", rp.Recipe, c.R.NViol, c.R.Violations), c.R.NViol > 0
	}
}
