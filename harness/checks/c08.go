package checks

import (
	"encoding/json"
	"fmt"
	"hash/fnv"
	"io"
	"math"
	"os"
	"sort"
	"strings"

	"go.1password.io/spg"
	"verif/harness/core"
	"verif/harness/explore"
	"verif/harness/ref"
	"verif/harness/tape"
	"verif/harness/verifrt"
)

// ---------- C08 / C10: word lists under every map-iteration order ----------

var wlUniverse = []string{"ab", "cd", "Polish", "polish", "Ab", "4", "éa", "Éa"}

func factorial(n int) int {
	f := 1
	for i := 2; i <= n; i++ {
		f *= i
	}
	return f
}

var permCache = map[int][][]int{}

func perms(n int) [][]int {
	if p, ok := permCache[n]; ok {
		return p
	}
	p := explore.Perms(n)
	permCache[n] = p
	return p
}

// orderExplorer drives verifrt.OrderHook from a Chooser: each map range at a
// site accepted by the filter is a choice point over all n! orders.
type orderExplorer struct {
	ch     *explore.Chooser
	filter func(site string) bool
	log    []string
	capped bool
	// once: every visit of a site within one execution uses the order
	// chosen at its first visit (one choice point per site and execution)
	once  bool
	cache map[string][]int
}

func (o *orderExplorer) reset() { o.log = o.log[:0]; o.cache = nil }

func (o *orderExplorer) hook(site string, n int) []int {
	if o.ch == nil || !o.filter(site) || n < 2 {
		return nil
	}
	if n > 6 {
		o.capped = true
		return nil
	}
	if o.once {
		if p, ok := o.cache[site]; ok && len(p) == n {
			return p
		}
	}
	k := o.ch.Choose(factorial(n))
	p := perms(n)[k]
	o.log = append(o.log, fmt.Sprintf("%s:%v", site, p))
	if o.once {
		if o.cache == nil {
			o.cache = map[string][]int{}
		}
		o.cache[site] = p
	}
	return p
}

// underAllOrders runs f once for every iteration order of the map ranges at
// sites accepted by filter (one order per site and execution) and returns the
// number of executions.
func underAllOrders(filter func(site string) bool, f func(orders []string) bool) (int64, bool) {
	ch := explore.New(-1)
	oe := &orderExplorer{ch: ch, filter: filter, once: true}
	verifrt.OrderHook = oe.hook
	defer func() { verifrt.OrderHook = nil }()
	for ch.Begin() {
		oe.reset()
		if !f(oe.log) {
			ch.Begin()
			break
		}
	}
	return ch.Executions, oe.capped
}

func setKey(words []string) string {
	m := map[string]bool{}
	for _, w := range words {
		m[w] = true
	}
	var out []string
	for w := range m {
		out = append(out, w)
	}
	sort.Strings(out)
	return strings.Join(out, ",")
}

type entKey struct {
	set, recipe string
}

type wlOrderState struct {
	c     *core.Ctx
	which string
	bits  map[entKey]uint32 // C08: entropy bits per (word set, recipe)
	first map[entKey]string // which input/order produced it
}

var c08Schemes = []string{"none", "first", "all", "one", "random", "", "bogus"}

func c08Seps(full bool) []Sep {
	s := []Sep{{Kind: "none"}, {Kind: "char", Char: "-"}, {Kind: "SFNone"}}
	if full {
		s = append(s, Sep{Kind: "SFDigits1"}, Sep{Kind: "SFDigits2"}, Sep{Kind: "sf", Recipe: &ref.CharRecipe{Length: 1, AllowChars: "xyz"}},
			Sep{Kind: "customMixed"}, Sep{Kind: "custom0", Recipe: &ref.CharRecipe{Length: 1, AllowChars: "xy"}})
	}
	return s
}

// one construction of the list under one choice of iteration orders
func (s *wlOrderState) construct(input []string, orders string, full bool) bool {
	c := s.c
	orig := append([]string{}, input...)
	arg := append([]string{}, input...)
	var wl *spg.WordList
	var err error
	pan := ""
	func() {
		defer func() {
			if x := recover(); x != nil {
				pan = fmt.Sprint(x)
			}
		}()
		wl, err = spg.NewWordList(arg)
	}()
	c.Count("executions", 1)
	rp := map[string]interface{}{"input": orig, "orders": orders}
	key := fmt.Sprintf("input %q", orig)
	if pan != "" {
		c.Violation(key+" panic", "NewWordList panicked: "+pan, rp)
		return false
	}
	kept, uncap := ref.Normalise(orig)
	if s.which == "C10" {
		if len(orig) == 0 {
			if wl != nil || err == nil {
				c.Violation(key+" empty", "an empty list must be rejected with an error", rp)
				return false
			}
			return true
		}
		if err != nil || wl == nil {
			c.Violation(key+" error", fmt.Sprintf("NewWordList failed: %v", err), rp)
			return false
		}
		for i := range orig {
			if arg[i] != orig[i] {
				c.Violation(key+" mutated", fmt.Sprintf("the caller's slice was changed: %q -> %q", orig, arg), rp)
				return false
			}
		}
		if int(wl.Size()) != len(kept) {
			c.Violation(key+" size", fmt.Sprintf("Size() = %d, the normalised list %q has %d words (orders %s)", wl.Size(), kept, len(kept), orders), rp)
			return false
		}
		// read the kept set out through the public API: one-word passwords
		r := spg.NewWLRecipe(1, wl)
		var got []string
		for i := 0; i < int(wl.Size()); i++ {
			idx := uint32(i)
			install(policyTape(func(b uint32, k int) uint32 { return idx }))
			out := runGen(r.Generate)
			c.Count("executions", 1)
			if !out.HasPw || len(out.Toks) != 1 {
				c.Violation(key+" readout", fmt.Sprintf("one-word password for index %d: %+v", i, out), rp)
				return false
			}
			got = append(got, out.Toks[0].V)
			// and its capitalised form is the title-cased word
			r2 := *r
			r2.Capitalize = spg.CSAll
			install(policyTape(func(b uint32, k int) uint32 { return idx }))
			out2 := runGen(r2.Generate)
			if !out2.HasPw || len(out2.Toks) != 1 || out2.Toks[0].V != ref.Title(out.Toks[0].V) {
				c.Violation(key+" title", fmt.Sprintf("capitalised atom for word %q is %+v", out.Toks[0].V, out2.Toks), rp)
				return false
			}
		}
		sort.Strings(got)
		if strings.Join(got, "\x00") != strings.Join(kept, "\x00") {
			c.Violation(key+" kept", fmt.Sprintf("kept words %q, expected %q (orders %s)", got, kept, orders), rp)
			return false
		}
		vw := spg.VerifWords(wl)
		sort.Strings(vw)
		if strings.Join(vw, "\x00") != strings.Join(kept, "\x00") {
			c.Violation(key+" kept-internal", fmt.Sprintf("internal word slice %q, expected %q", vw, kept), rp)
			return false
		}
		c.Outcome(strings.Join(kept, ","))
		return true
	}
	// ---- C08
	if err != nil || wl == nil {
		return true // C10's verdict
	}
	sk := setKey(orig)
	for _, cp := range c08Schemes {
		for L := 1; L <= 3; L++ {
			for _, sp := range c08Seps(full) {
				w := WLCase{Words: orig, Length: L, Cap: cp, Sep: sp}
				r := spg.NewWLRecipe(L, wl)
				r.Capitalize = spg.CapScheme(cp)
				if tmp, err := (WLCase{Words: []string{"q"}, Length: L, Cap: cp, Sep: sp}).build(); err == nil {
					r.SeparatorChar, r.SeparatorFunc = tmp.SeparatorChar, tmp.SeparatorFunc
				}
				var e [3]float32
				t0 := policyTape(func(b uint32, k int) uint32 { return 0 })
				install(t0)
				e[0] = r.Entropy()
				reads0 := t0.Reads
				e[1] = r.Entropy()
				install(policyTape(func(b uint32, k int) uint32 { return b - 1 }))
				e[2] = r.Entropy()
				c.Count("executions", 3)
				c.Count("entropy_evaluations", 3)
				rk := fmt.Sprintf("L=%d cap=%q sep=%s", L, cp, mustJSON(sp))
				rp2 := map[string]interface{}{"input": orig, "orders": orders, "recipe": rk}
				b0 := math.Float32bits(e[0])
				if math.Float32bits(e[1]) != b0 || math.Float32bits(e[2]) != b0 {
					c.Violation(key+" unstable", fmt.Sprintf("Entropy() of %s returned %v, %v, %v on consecutive calls / different random streams", rk, e[0], e[1], e[2]), rp2)
					return false
				}
				// a random source that fails at read k of the call: Entropy()
				// may panic (the library's way of failing closed), but a
				// value it returns must still be the recipe's value
				if L == 2 && reads0 > 0 {
					for k := 1; k <= reads0; k++ {
						tf := policyTape(func(b uint32, k int) uint32 { return 0 })
						tf.FaultAt, tf.Fault = k, tape.Fault{Deliver: 0, Err: io.ErrUnexpectedEOF}
						install(tf)
						var ef float32
						panicked := false
						func() {
							defer func() {
								if recover() != nil {
									panicked = true
								}
							}()
							ef = r.Entropy()
						}()
						c.Count("executions", 1)
						c.Count("entropy_evaluations_with_failing_source", 1)
						if !panicked && math.Float32bits(ef) != b0 {
							c.Violation(key+" unstable-fault", fmt.Sprintf("Entropy() of %s returned %v when the random source failed at read %d of the call, and %v otherwise", rk, ef, k, e[0]), rp2)
							return false
						}
					}
					install(policyTape(func(b uint32, k int) uint32 { return 0 }))
				}
				want := w.entropyModel()
				_ = uncap
				if math.IsNaN(float64(e[0])) || math.Abs(float64(e[0])-want) > 4*ref.Ulp32(want) {
					c.Violation(key+" value", fmt.Sprintf("Entropy() of %s over list %q = %v, documented formula gives %v (orders %s)", rk, kept, e[0], want, orders), rp2)
					return false
				}
				ek := entKey{sk, rk}
				if prev, ok := s.bits[ek]; ok {
					if prev != b0 {
						c.Violation(key+" order-dependent", fmt.Sprintf("Entropy() of %s for the word set {%s} is %v here (input %q, orders %s) but %v for %s", rk, sk, e[0], orig, orders, math.Float32frombits(prev), s.first[ek]), rp2)
						return false
					}
				} else {
					s.bits[ek] = b0
					s.first[ek] = fmt.Sprintf("input %q orders %s", orig, orders)
					c.Count("distinct_set_recipe_pairs", 1)
				}
			}
		}
	}
	return true
}

// bigList checks the entropy formula on a large list (no order enumeration).
func (s *wlOrderState) bigList(in []string, uncap int) {
	c := s.c
	wl, err := spg.NewWordList(in)
	c.Count("executions", 1)
	c.Count("large_lists", 1)
	if err != nil {
		c.Violation("large list", "NewWordList failed: "+err.Error(), map[string]interface{}{"size": len(in)})
		return
	}
	kept, uncapModel := ref.Normalise(in)
	uncap = uncapModel
	in = kept
	cal.Rep(uint32(len(kept)), 0)
	for _, cp := range []string{"none", "one", "random", "all"} {
		for _, L := range []int{1, 4, 20, 72, 73, 100, 103, 500, 1023, 1024, 1025, 5000} {
			r := spg.NewWLRecipe(L, wl)
			r.Capitalize = spg.CapScheme(cp)
			install(policyTape(func(b uint32, k int) uint32 { return 0 }))
			e := float64(r.Entropy())
			want := ref.WLEntropy(len(in), L, cp, uncap, 0)
			c.Count("executions", 1)
			if math.IsNaN(e) || math.Abs(e-want) > 4*ref.Ulp32(want) {
				c.Violation(fmt.Sprintf("large list n=%d uncap=%d", len(in), uncap), fmt.Sprintf("list of %d words of which %d do not change under title-casing, scheme %q, Length %d: Entropy() = %v, documented formula gives %v", len(in), uncap, cp, L, e, want),
					map[string]interface{}{"size": len(in), "uncapitalisable": uncap, "scheme": cp, "length": L})
				return
			}
		}
	}
}

// bigTwins: Size() and the kept set of a large list with many capitalised twins.
func (s *wlOrderState) bigTwins(in []string) {
	c := s.c
	orig := append([]string{}, in...)
	wl, err := spg.NewWordList(in)
	c.Count("executions", 1)
	c.Count("large_lists", 1)
	key := fmt.Sprintf("large twin list (%d entries)", len(orig))
	rp := map[string]interface{}{"large_twin_list": len(orig)}
	if err != nil || wl == nil {
		c.Violation(key, fmt.Sprintf("NewWordList failed: %v", err), rp)
		return
	}
	kept, _ := ref.Normalise(orig)
	if int(wl.Size()) != len(kept) {
		c.Violation(key+" size", fmt.Sprintf("Size() = %d, the normalised list has %d words (%d entries, every word or every third also title-cased)", wl.Size(), len(kept), len(orig)), rp)
		return
	}
	vw := spg.VerifWords(wl)
	sort.Strings(vw)
	if strings.Join(vw, "\x00") != strings.Join(kept, "\x00") {
		c.Violation(key+" kept", "the kept words differ from the normalised list", rp)
		return
	}
	for i := range orig {
		if in[i] != orig[i] {
			c.Violation(key+" mutated", "the caller's slice was changed", rp)
			return
		}
	}
	c.Outcome(fmt.Sprintf("large twin list %d -> %d", len(orig), len(kept)))
}

// badStderr constructs lists with duplicates and twins while os.Stderr is a
// closed file, a full device, and a read-only descriptor.
func (s *wlOrderState) badStderr() {
	c := s.c
	inputs := [][]string{{"ab", "ab", "cd"}, {"polish", "Polish", "ab"}, {"ab", "cd"}, {"4", "4"}}
	type env struct {
		name string
		open func() *os.File
	}
	envs := []env{
		{"closed", func() *os.File { f, _ := os.CreateTemp("", "verif-stderr-"); os.Remove(f.Name()); f.Close(); return f }},
		{"/dev/full", func() *os.File { f, _ := os.OpenFile("/dev/full", os.O_WRONLY, 0); return f }},
		{"read-only", func() *os.File { f, _ := os.Open("/dev/null"); return f }},
	}
	for _, e := range envs {
		for _, in := range inputs {
			f := e.open()
			if f == nil {
				continue
			}
			old := os.Stderr
			os.Stderr = f
			var wl *spg.WordList
			var err error
			pan := ""
			func() {
				defer func() {
					if x := recover(); x != nil {
						pan = fmt.Sprint(x)
					}
				}()
				wl, err = spg.NewWordList(append([]string{}, in...))
			}()
			os.Stderr = old
			f.Close()
			c.Count("executions", 1)
			c.Count("constructions_with_unwritable_stderr", 1)
			kept, _ := ref.Normalise(in)
			key := fmt.Sprintf("input %q stderr %s", in, e.name)
			rp := map[string]interface{}{"input": in, "stderr": e.name}
			switch {
			case pan != "":
				c.Violation(key+" panic", "NewWordList panicked: "+pan, rp)
			case err != nil || wl == nil:
				c.Violation(key+" error", fmt.Sprintf("NewWordList failed (%v) although the list is not empty (standard error: %s)", err, e.name), rp)
			case int(wl.Size()) != len(kept):
				c.Violation(key+" size", fmt.Sprintf("Size() = %d, expected %d", wl.Size(), len(kept)), rp)
			}
		}
	}
}

// explore all iteration orders for one input
func (s *wlOrderState) input(input []string) {
	c := s.c
	d := len(strings.Split(setKey(input), ","))
	bound := 1 // one loop deviates from the canonical order at a time
	if d <= 3 {
		bound = -1 // full product of the loops' orders
	}
	ch := explore.New(bound)
	oe := &orderExplorer{ch: ch, filter: func(site string) bool { return strings.HasPrefix(site, "word_gen.go") }}
	verifrt.OrderHook = oe.hook
	defer func() { verifrt.OrderHook = nil }()
	first := true
	for ch.Begin() {
		oe.log = oe.log[:0]
		// the orders are consumed inside NewWordList; Entropy() calls made
		// afterwards see no word_gen.go range
		ok := s.constructWith(oe, input, first)
		first = false
		if !ok {
			break
		}
	}
	c.Count("nodes", ch.Nodes)
	c.Count("edges", ch.Edges)
	c.Count("constructions", ch.Executions)
	c.Count("inputs", 1)
	if oe.capped {
		c.Incomplete("more than 6 distinct words in %q: orders not enumerated", input)
	}
}

func (s *wlOrderState) constructWith(oe *orderExplorer, input []string, full bool) bool {
	if s.construct(input, "", full) {
		return true
	}
	// attach the iteration orders of this construction to the violation
	if n := len(s.c.R.Violations); n > 0 {
		v := &s.c.R.Violations[n-1]
		v.Msg += " [iteration orders: " + strings.Join(oe.log, " ") + "]"
		if m, ok := v.Replay.(map[string]interface{}); ok {
			m["orders"] = append([]string{}, oe.log...)
		}
	}
	return false
}

func wlOrderRun(which string) func(c *core.Ctx) {
	return func(c *core.Ctx) {
		if verifrtMissing() {
			c.Incomplete("worker not built from the instrumented copy: map ranges are not controlled")
		}
		s := &wlOrderState{c: c, which: which, bits: map[entKey]uint32{}, first: map[entKey]string{}}
		maxLen := 3
		if c.Thorough() {
			maxLen = 4
		}
		if which == "C10" && c.Shard == 0 {
			s.construct(nil, "", false)
			s.construct([]string{}, "", false)
		}
		var seq []string
		var rec func()
		rec = func() {
			if len(seq) > 0 {
				h := fnv.New32a()
				h.Write([]byte(setKey(seq)))
				if c.MineKey(int(h.Sum32() % 9973)) {
					s.input(append([]string{}, seq...))
				}
			}
			if len(seq) == maxLen || c.Expired() {
				return
			}
			for _, w := range wlUniverse {
				seq = append(seq, w)
				rec()
				seq = seq[:len(seq)-1]
			}
		}
		rec()
		// second universe: twins that differ beyond an ASCII first letter
		u2 := []string{"ǆep", "ǅep", "eBay", "EBay", "new-york", "New-York", "ab"}
		u2Len := 3
		if c.Thorough() {
			u2Len = 4
		}
		var rec3 func()
		rec3 = func() {
			if len(seq) > 0 {
				h := fnv.New32a()
				h.Write([]byte(setKey(seq)))
				if c.MineKey(int(h.Sum32() % 9973)) {
					s.input(append([]string{}, seq...))
				}
			}
			if len(seq) == u2Len {
				return
			}
			for _, w := range u2 {
				seq = append(seq, w)
				rec3()
				seq = seq[:len(seq)-1]
			}
		}
		seq = seq[:0]
		rec3()
		// third universe: words that differ only in white space at their edges
		u3 := []string{"alpha", "alpha ", "alpha\r", " alpha", "Alpha", "alpha\n", "Alpha "}
		var rec4 func()
		rec4 = func() {
			if len(seq) > 0 {
				h := fnv.New32a()
				h.Write([]byte(setKey(seq)))
				if c.MineKey(int(h.Sum32() % 9973)) {
					s.input(append([]string{}, seq...))
				}
			}
			if len(seq) == u2Len {
				return
			}
			for _, w := range u3 {
				seq = append(seq, w)
				rec4()
				seq = seq[:len(seq)-1]
			}
		}
		seq = seq[:0]
		rec4()
		// every sequence of length 4 (thorough 5) over the two twin pairs
		// (order of twins in the INPUT matters to slice-based normalisers)
		tw := []string{"ab", "Ab", "polish", "Polish"}
		twLen := 4
		if c.Thorough() {
			twLen = 5
		}
		var rec2 func()
		rec2 = func() {
			if len(seq) == twLen {
				h := fnv.New32a()
				h.Write([]byte(setKey(seq)))
				if c.MineKey(int(h.Sum32() % 9973)) {
					s.input(append([]string{}, seq...))
				}
				return
			}
			for _, w := range tw {
				seq = append(seq, w)
				rec2()
				seq = seq[:len(seq)-1]
			}
		}
		seq = seq[:0]
		rec2()
		// a few longer inputs with many twins
		for _, in := range [][]string{
			{"ab", "Ab", "cd", "Cd", "polish", "Polish"},
			{"Polish", "Polish", "polish", "polish", "ab"},
			{"éa", "Éa", "Éa", "4", "4"},
			{"x-y", "X-Y", "ab"},
			{"Polish", "Ab", "Éa", "polish", "ab", "éa"},
			{"polish", "ab", "éa", "Polish", "Ab", "Éa"},
			{"Éa", "ab", "Polish", "éa", "Ab", "polish"},
		} {
			h := fnv.New32a()
			h.Write([]byte(setKey(in)))
			if c.MineKey(int(h.Sum32() % 9973)) {
				s.input(in)
			}
		}
		if which == "C10" {
			// large lists in which every word (or every third) also appears
			// title-cased, sizes around 4096/8192 and not divisible by 8
			for li, n := range []int{4095, 4097, 4099, 5001, 8191} {
				for _, every := range []int{1, 3} {
					if !c.MineKey(li*2 + every) {
						continue
					}
					in := make([]string, 0, 2*n)
					for i := 0; i < n; i++ {
						in = append(in, fmt.Sprintf("w%dx", i))
					}
					for i := 0; i < n; i += every {
						in = append(in, fmt.Sprintf("W%dx", i))
					}
					s.bigTwins(in)
				}
			}
			// the duplicate notice goes to standard error; a standard error
			// that cannot be written to must not change what is constructed
			if c.MineKey(4) {
				s.badStderr()
			}
		}
		// large lists with a handful of uncapitalisable words (canonical order only)
		if which == "C08" {
			for li, n := range []int{99, 100, 1000, 9999, 10000, 10001, 20000, 70000} {
				for _, extra := range [][]string{nil, {"4"}, {"4", "Ab"}, {"正確", "4", "Ab", "X"}} {
					if !c.MineKey(li*7 + len(extra)) {
						continue
					}
					in := make([]string, 0, n+len(extra))
					for i := 0; i < n; i++ {
						in = append(in, fmt.Sprintf("w%dx", i))
					}
					in = append(in, extra...)
					s.bigList(in, len(extra))
				}
			}
			for li, small := range [][]string{{"ab", "cd"}, {"ab", "cd", "efg"}, {"ab", "cd", "efg", "hi", "jk"}, {"ab", "4"}} {
				if c.MineKey(5 + li) {
					s.bigList(small, 0)
				}
			}
			if c.MineKey(3) {
				s.bigList(append(append([]string{}, spg.AgileWords...), "4"), 1)
				s.bigList(append(append([]string{}, spg.AgileSyllables...), "Ab"), 1)
				s.bigList(append([]string{}, spg.AgileWords...), 0)
			}
		}
		if c.Expired() {
			c.Incomplete("deadline")
		}
		if c.Shard == 0 {
			c.Sample(map[string]interface{}{"input": []string{"Polish", "polish", "ab"}, "orders_explored": "all orders of each of the map ranges in NewWordList (full product: <=3 distinct words; one loop at a time: more)"})
		}
	}
}

// verifrtMissing reports whether map ranges are actually routed through the
// hook in this binary (probe: construct a list and see whether the hook fires).
func verifrtMissing() bool {
	fired := false
	verifrt.OrderHook = func(site string, n int) []int { fired = true; return nil }
	spg.NewWordList([]string{"a", "b"})
	verifrt.OrderHook = nil
	return !fired
}

func init() {
	Register(&core.Check{
		ID:    "C08",
		Level: "model_checking",
		Build: "inst",
		Rule: "every input sequence of length 1-3 (thorough 1-4) over the 8-word universe {ab,cd,Polish,polish,Ab,4,éa,Éa} (all permutations and repetitions of every sub-multiset), every sequence of length 1-3 (thorough 4) over {ǆep,ǅep,eBay,EBay,new-york,New-York,ab}, every sequence of length 4 (thorough 5) over the twin pairs {ab,Ab,polish,Polish}, 7 longer inputs with up to three twin pairs, lists of 2-70000 words and the shipped lists with 0-4 uncapitalisable words added, at lengths 1-5000 x EVERY iteration order of the map ranges inside NewWordList (instrumented copy; full product of the loops' orders for <=3 distinct words, one loop deviating at a time otherwise) x 7 scheme strings x lengths 1-3 x 3-6 separator settings, Entropy() called 3 times under 2 random streams; " +
			"oracle: documented formula within 4 float32 ulps and bit-identical for the same word set across all orders, permutations, repetitions, calls and streams; non-trivial = distinct (word set, recipe) pairs",
		Assume:      []string{"Go may iterate a map in any order (spec); the instrumented range visits the keys in the chosen order and skips entries deleted meanwhile, as the spec prescribes", "iteration orders inside golang-set are left to the runtime"},
		Run:         wlOrderRun("C08"),
		DistinctKey: "distinct_set_recipe_pairs",
	})
	Register(&core.Check{
		ID:    "C10",
		Level: "model_checking",
		Build: "inst",
		Rule: "the same constructions as C08 (every input sequence x every map-iteration order of NewWordList); oracle: kept set read through the public API (one-word passwords for every index, and their capitalised forms) and through the verif export == distinct words minus title-cased twins, Size() == |kept|, empty input rejected, caller's slice unchanged; " +
			"non-trivial = distinct kept sets",
		Assume: []string{"as C08"},
		Run:    wlOrderRun("C10"),
	})
	rp := func(which string) func(raw json.RawMessage) (string, bool) {
		return func(raw json.RawMessage) (string, bool) {
			var r struct {
				Input  []string `json:"input"`
				Stderr string   `json:"stderr"`
				Twins  int      `json:"large_twin_list"`
			}
			json.Unmarshal(raw, &r)
			c := &core.Ctx{ID: which, Tier: "quick", NShards: 1}
			s := &wlOrderState{c: c, which: which, bits: map[entKey]uint32{}, first: map[entKey]string{}}
			if r.Stderr != "" {
				s.badStderr()
				return fmt.Sprintf("constructions with an unwritable standard error repeated: %d violation(s) %v", c.R.NViol, c.R.Violations), c.R.NViol > 0
			}
			if r.Twins > 0 {
				for _, every := range []int{1, 3} {
					n := r.Twins / 2
					if every == 3 {
						n = r.Twins * 3 / 4
					}
					for d := -2; d <= 2; d++ {
						var in []string
						for i := 0; i < n+d; i++ {
							in = append(in, fmt.Sprintf("w%dx", i))
						}
						for i := 0; i < n+d; i += every {
							in = append(in, fmt.Sprintf("W%dx", i))
						}
						if len(in) == r.Twins {
							s.bigTwins(in)
						}
					}
				}
				return fmt.Sprintf("large twin list of %d entries rebuilt: %d violation(s) %v", r.Twins, c.R.NViol, c.R.Violations), c.R.NViol > 0
			}
			if verifrtMissing() {
				// plain build: repeat the construction under the runtime's own orders
				for i := 0; i < 2000 && c.R.NViol == 0; i++ {
					s.construct(r.Input, "runtime", i == 0)
				}
			} else {
				s.input(r.Input)
			}
			return fmt.Sprintf("input %q: %d violation(s) %v", r.Input, c.R.NViol, c.R.Violations), c.R.NViol > 0
		}
	}
	Replayers["C08"] = rp("C08")
	Replayers["C10"] = rp("C10")
}
