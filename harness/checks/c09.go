package checks

import (
	"encoding/json"
	"errors"
	"fmt"
	"io"
	"math"

	"go.1password.io/spg"
	"verif/harness/core"
	"verif/harness/ref"
	"verif/harness/tape"
)

// ---------- C09: all randomness from the OS source; fail closed ----------

type c09Case struct {
	Name string
	Gen  func() func() (*spg.Password, error)
}

func c09Cases() []c09Case {
	wl := func(words []string, L int, cp string, sep Sep) func() func() (*spg.Password, error) {
		return func() func() (*spg.Password, error) {
			r, err := WLCase{Words: words, Length: L, Cap: cp, Sep: sep}.build()
			if err != nil {
				panic(err)
			}
			return r.Generate
		}
	}
	ch := func(r ref.CharRecipe) func() func() (*spg.Password, error) {
		return func() func() (*spg.Password, error) { sr := toSpg(r); return sr.Generate }
	}
	return []c09Case{
		{"char abc L3", ch(ref.CharRecipe{Length: 3, AllowChars: "abc"})},
		{"char ab+req{1} L2 (first candidate fails)", ch(ref.CharRecipe{Length: 2, AllowChars: "ab", RequireSets: []string{"1"}})},
		{"wl one SFDigits1 L3", wl([]string{"ab", "cd", "efg"}, 3, "one", Sep{Kind: "SFDigits1"})},
		{"wl random nosep L3", wl([]string{"ab", "cd", "efg"}, 3, "random", Sep{Kind: "none"})},
		{"wl sf-with-requirement L2", wl([]string{"ab", "cd", "efg"}, 2, "first", Sep{Kind: "sf", Recipe: &ref.CharRecipe{Length: 2, AllowChars: "ab", RequireSets: []string{"1"}}})},
		{"NewCharRecipe(4)", func() func() (*spg.Password, error) { return spg.NewCharRecipe(4).Generate }},
		{"char digits+require symbols L4", ch(ref.CharRecipe{Length: 4, Allow: ref.Digits, Require: ref.Symbols})},
		{"wl all SFDigitsNoAmbiguous2 L2", wl([]string{"ab", "cd", "efg", "hi", "jk"}, 2, "all", Sep{Kind: "SFDigitsNoAmbiguous2"})},
	}
}

var c09Policies = []struct {
	Name   string
	F      func(b uint32, i int) uint32
	Reject bool
}{
	{Name: "i*5+1 with rejected words before every second draw", F: func(b uint32, i int) uint32 { return uint32(i*5 + 1) }, Reject: true},
	{Name: "last index first, then 0", F: func(b uint32, i int) uint32 {
		if i < 2 {
			return b - 1
		}
		return 0
	}},
	{Name: "i*7+3", F: func(b uint32, i int) uint32 { return uint32(i*7 + 3) }},
	{Name: "b-1-i", F: func(b uint32, i int) uint32 { return (b*8 - 1 - uint32(i)) % b }},
}

var compositions = [][]int{{1, 3}, {3, 1}, {2, 2}, {1, 1, 2}, {1, 2, 1}, {2, 1, 1}, {1, 1, 1, 1}}

var errInjected = errors.New("injected entropy source failure")

func c09Run(c *core.Ctx) {
	{
		// every stream of each recipe's cell with at most one (thorough: two)
		// deviating draws is a base stream for the fault enumeration
		dev, maxLeaves := 1, int64(400)
		if c.Thorough() {
			dev, maxLeaves = 2, 3000
		}
		for ci, cs := range c09Cases() {
			if !c.Mine() {
				continue
			}
			g := cs.Gen()
			var bases [][]uint32
			exploreCell(g, CellOpt{DepthCut: 40, Fallback: 2, MaxMenu: 64, MaxLeaves: maxLeaves, Dev: dev}, func(l *Leaf) {
				if l.Out.Aborted || !l.Out.HasPw {
					return
				}
				w := make([]uint32, len(l.Bounds))
				for i := range w {
					w[i], _ = cal.Rep(l.Bounds[i], l.Outs[i])
				}
				bases = append(bases, w)
			})
			for _, words := range bases {
				c09Faults(c, ci, cs, g, words)
			}
			c.Count("base_streams_from_cells", int64(len(bases)))
		}
	}
	for ci, cs := range c09Cases() {
		for pi, pol := range c09Policies {
			if !c.Mine() {
				continue
			}
			g := cs.Gen()
			// fault-free base run, recording the words
			bt := policyTape(pol.F)
			if pol.Reject {
				// every second draw first sees a word of the rejection zone
				i := 0
				bt = tape.New(tape.Func(func(bound uint32, announced, cont bool) (uint32, error) {
					if !announced || bound == 0 {
						return 0, nil
					}
					if !cont {
						i++
						if rj := rejectWords(bound); i%2 == 0 && len(rj) > 0 {
							return rj[i/2%len(rj)], nil
						}
					}
					w, _ := cal.Rep(bound, pol.F(bound, i)%bound)
					return w, nil
				}))
			}
			bt.LogOn = true
			install(bt)
			base := runGen(g)
			bt.EndCall()
			c.Count("executions", 1)
			key := fmt.Sprintf("%s / %s", cs.Name, pol.Name)
			if !base.HasPw {
				c.Note("base run of %s returned no password (%s%s); faults not enumerated", key, base.Err, base.Panic)
				continue
			}
			words := make([]uint32, len(bt.Log))
			for i, d := range bt.Log {
				words[i] = d.Word
			}
			K := bt.Reads
			rpBase := map[string]interface{}{"case": ci, "case_name": cs.Name, "policy": pi, "words": words}
			// determinism: the same words again
			again, at := runScript(g, words)
			c.Count("executions", 1)
			if !sameOut(again, base) || at.Served != bt.Served {
				c.Violation(key+" nondeterministic", fmt.Sprintf("the same source bytes gave %q then %q", base.Str, again.Str), rpBase)
				continue
			}
			c.Outcome(base.Str)
			for k := 1; k <= K; k++ {
				// (i) error faults
				for _, e := range []error{errInjected, io.EOF} {
					for j := 0; j <= 3; j++ {
						t := tape.New(&tape.Script{W: words})
						t.FaultAt, t.Fault = k, tape.Fault{Deliver: j, Err: e}
						install(t)
						out := runGen(g)
						c.Count("executions", 1)
						c.Count("faults_injected", 1)
						rp := map[string]interface{}{"case": ci, "case_name": cs.Name, "policy": pi, "words": words, "fault_at_read": k, "deliver": j, "err": e.Error()}
						fk := fmt.Sprintf("%s fault(err=%s)", cs.Name, e)
						if out.Aborted {
							c.Violation(fk+" spins", fmt.Sprintf("the source failed at read %d of %d and generation kept reading from it for ever (cut off after 10000 further reads)", k, K), rp)
						} else if out.HasPw {
							c.Violation(fk+" password", fmt.Sprintf("the source failed at read %d of %d (%d bytes delivered, %v) but Generate returned %q", k, K, j, e, out.Str), rp)
						} else if out.Panic == "" && out.Err == "" {
							c.Violation(fk+" silent", fmt.Sprintf("source failure at read %d: neither password, error nor panic", k), rp)
						} else if t.ReadsAfterFault != 0 {
							c.Violation(fk+" continued", fmt.Sprintf("source failed at read %d but %d more reads followed", k, t.ReadsAfterFault), rp)
						}
						if out.Panic != "" {
							c.Outcome("panic")
						} else {
							c.Outcome("error")
						}
					}
				}
				// (ii) chunking of read k
				for _, comp := range compositions {
					for _, lead := range []bool{false, true} {
						plan := comp
						if lead {
							plan = append([]int{0}, comp...)
						}
						t := tape.New(&tape.Script{W: words})
						t.ChunkAt, t.Chunks = k, plan
						install(t)
						out := runGen(g)
						c.Count("executions", 1)
						c.Count("chunkings", 1)
						if !sameOut(out, base) || t.Served != bt.Served {
							c.Violation(cs.Name+" chunking", fmt.Sprintf("read %d served in pieces %v: result %q (%s%s), unchunked %q", k, plan, out.Str, out.Err, out.Panic, base.Str),
								map[string]interface{}{"case": ci, "case_name": cs.Name, "policy": pi, "words": words, "chunk_at_read": k, "chunks": plan})
						}
					}
				}
			}
			// every read chunked the same way
			for _, comp := range compositions {
				t := tape.New(&tape.Script{W: words})
				t.ChunkAt, t.Chunks, t.ChunkCycle = 1, comp, true
				install(t)
				out := runGen(g)
				c.Count("executions", 1)
				c.Count("chunkings", 1)
				if !sameOut(out, base) || t.Served != bt.Served {
					c.Violation(cs.Name+" chunking-all", fmt.Sprintf("all reads served in pieces %v: result %q (%s%s), unchunked %q", comp, out.Str, out.Err, out.Panic, base.Str),
						map[string]interface{}{"case": ci, "case_name": cs.Name, "policy": pi, "words": words, "chunk_at_read": 1, "chunks": comp, "cycle": true})
				}
			}
			// a different stream must be able to change the result (the
			// choices really come from the source): flip each word in turn
			changed := 0
			for i := range words {
				v := append([]uint32{}, words...)
				// replace word i by a word that selects a different outcome
				// of the same draw (whatever the sampling algorithm is)
				d := bt.Log[i]
				if !d.Announced || d.Bound < 2 {
					continue
				}
				res, _, ok := drawOnce(d.Bound, d.Word, d.Word)
				if !ok {
					continue
				}
				alt, ok := cal.Rep(d.Bound, (res+1)%d.Bound)
				if !ok {
					continue
				}
				v[i] = alt
				o, _ := runScript(g, v)
				c.Count("executions", 1)
				if !sameOut(o, base) {
					changed++
				}
			}
			if changed == 0 && len(words) > 0 {
				c.Violation(cs.Name+" ignores-source", "changing any single word of the source never changes the result", rpBase)
			}
			c.Count("read_positions", int64(K))
			c.Sample(map[string]interface{}{"case": cs.Name, "policy": pol.Name, "reads": K, "password": base.Str, "words": words})
			_ = math.Pi
		}
	}
}

func init() {
	Register(&core.Check{
		ID:    "C09",
		Level: "fault_enumeration",
		Rule: "8 recipes (character with/without retries, default recipe, wordlist with preset/functional/retrying separators) x 4 scripted source streams (one with words of the rejection zone); for EVERY read position k of the fault-free run: an error ({custom, io.EOF}) after 0,1,2,3 delivered bytes, and read k served in each of the 7 other compositions of 4 bytes with and without a leading (0,nil) read; every stream of each recipe's cell with at most one (thorough: two) deviating draws as base stream; plus all reads chunked alike, a replay of the same bytes, and single-draw outcome changes; " +
			"non-trivial = faults actually injected (distinct (recipe, stream, read, fault) tuples)",
		Assume:      []string{"go1.23.5: crypto/rand.Read returns the reader's error (later Go versions abort the process instead)", "the only fallible dependency of generation is crypto/rand.Reader"},
		Run:         c09Run,
		DistinctKey: "faults_injected",
		StatesKey:   "read_positions", TransKey: "executions",
	})
	Replayers["C09"] = func(raw json.RawMessage) (string, bool) {
		var rp struct {
			Case    int      `json:"case"`
			Words   []uint32 `json:"words"`
			FaultAt int      `json:"fault_at_read"`
			Deliver int      `json:"deliver"`
			Err     string   `json:"err"`
			ChunkAt int      `json:"chunk_at_read"`
			Chunks  []int    `json:"chunks"`
			Cycle   bool     `json:"cycle"`
		}
		json.Unmarshal(raw, &rp)
		g := c09Cases()[rp.Case].Gen()
		base, _ := runScript(g, rp.Words)
		t := tape.New(&tape.Script{W: rp.Words})
		if rp.FaultAt > 0 {
			t.FaultAt, t.Fault = rp.FaultAt, tape.Fault{Deliver: rp.Deliver, Err: errors.New(rp.Err)}
		}
		if rp.Chunks != nil {
			t.ChunkAt, t.Chunks, t.ChunkCycle = rp.ChunkAt, rp.Chunks, rp.Cycle
		}
		install(t)
		out := runGen(g)
		bad := false
		if rp.FaultAt > 0 {
			bad = out.HasPw || t.ReadsAfterFault != 0
		} else {
			bad = !sameOut(out, base)
		}
		return fmt.Sprintf("base %q; with fault/chunking: pw=%q err=%q panic=%q", base.Str, out.Str, out.Err, out.Panic), bad
	}
}

// c09Faults enumerates error faults and chunkings at every read of one base stream.
func c09Faults(c *core.Ctx, ci int, cs c09Case, g func() (*spg.Password, error), words []uint32) {
	base, bt := runScript(g, words)
	c.Count("executions", 1)
	if !base.HasPw {
		return
	}
	K := bt.Reads
	for k := 1; k <= K; k++ {
		for _, e := range []error{errInjected, io.EOF} {
			for j := 0; j <= 3; j++ {
				t := tape.New(&tape.Script{W: words})
				t.FaultAt, t.Fault = k, tape.Fault{Deliver: j, Err: e}
				install(t)
				out := runGen(g)
				c.Count("executions", 1)
				c.Count("faults_injected", 1)
				rp := map[string]interface{}{"case": ci, "case_name": cs.Name, "words": words, "fault_at_read": k, "deliver": j, "err": e.Error()}
				fk := fmt.Sprintf("%s fault(err=%s)", cs.Name, e)
				if out.Aborted {
					c.Violation(fk+" spins", fmt.Sprintf("the source failed at read %d of %d and generation kept reading from it for ever (cut off after 10000 further reads)", k, K), rp)
					return
				}
				if out.HasPw {
					c.Violation(fk+" password", fmt.Sprintf("the source failed at read %d of %d (%d bytes delivered, %v) but Generate returned %q", k, K, j, e, out.Str), rp)
					return
				} else if t.ReadsAfterFault != 0 {
					c.Violation(fk+" continued", fmt.Sprintf("source failed at read %d but %d more reads followed", k, t.ReadsAfterFault), rp)
					return
				}
			}
		}
		for _, comp := range compositions {
			t := tape.New(&tape.Script{W: words})
			t.ChunkAt, t.Chunks = k, comp
			install(t)
			out := runGen(g)
			c.Count("executions", 1)
			c.Count("chunkings", 1)
			if !sameOut(out, base) || t.Served != bt.Served {
				c.Violation(cs.Name+" chunking", fmt.Sprintf("read %d served in pieces %v: result %q (%s%s), unchunked %q", k, comp, out.Str, out.Err, out.Panic, base.Str),
					map[string]interface{}{"case": ci, "case_name": cs.Name, "words": words, "chunk_at_read": k, "chunks": comp})
				return
			}
		}
	}
	c.Count("read_positions", int64(K))
}
