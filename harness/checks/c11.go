package checks

import (
	"encoding/json"
	"fmt"
	"math"
	"strings"

	"go.1password.io/spg"
	"verif/harness/core"
	"verif/harness/ref"
)

// ---------- C11: token index round trip and size ----------

var (
	prevIdx spg.Indices
	prevStr string
	prevKey string
)

// c11Password checks the round trip of one password value.
func c11Password(c *core.Ctx, p *spg.Password, origin string, rp map[string]interface{}) bool {
	toks := toToks(p.Tokens())
	c.Count("executions", 1)
	key := origin
	encodable := len(toks) > 0
	hasEmpty := false
	for _, t := range toks {
		n := len(ref.Chars(t.V))
		if n > 255 {
			encodable = false
		}
		if n == 0 {
			// empty tokens are outside the property's premise (tokens of
			// 1..255 characters); only counted. Type bytes other than
			// atom/separator are constructible through Tokenize and are
			// inside it: such sequences are neither all-atom nor alternating
			hasEmpty = true
		}
	}
	if hasEmpty {
		c.Count("outside_premise_empty_or_untyped_tokens", 1)
		return true
	}
	var idx spg.Indices
	var err error
	pan := ""
	func() {
		defer func() {
			if x := recover(); x != nil {
				pan = fmt.Sprint(x)
			}
		}()
		idx, err = p.Tokens().MakeIndices()
	}()
	if pan != "" {
		c.Violation(key+" panic", fmt.Sprintf("MakeIndices panicked on %q: %s", trunc(tokKey(toks)), pan), rp)
		return false
	}
	if !encodable {
		// a token of 0 or more than 255 characters cannot be encoded:
		// an error, or at least never a lossy index
		if len(toks) == 0 {
			return true
		}
		if err == nil && idx != nil {
			back, terr := spg.Tokenize(p.String(), idx, p.Entropy)
			if terr == nil && tokKey(toToks(back.Tokens())) == tokKey(toks) {
				c.Count("unencodable_but_lossless", 1)
				return true
			}
			c.Violation(key+" lossy", fmt.Sprintf("tokens %q cannot be encoded (token length outside 1..255 characters) but MakeIndices returned index %v without error", trunc(tokKey(toks)), []byte(idx)), rp)
			return false
		}
		c.Count("unencodable_rejected", 1)
		return true
	}
	if err != nil {
		c.Violation(key+" refused", fmt.Sprintf("MakeIndices failed (%v) on tokens %q, all of which have 1..255 characters", err, trunc(tokKey(toks))), rp)
		return false
	}
	if want := ref.IndexSize(toks); len(idx) != want {
		c.Violation(key+" size", fmt.Sprintf("index of %q has %d bytes, documented size is %d", trunc(tokKey(toks)), len(idx), want), rp)
		return false
	}
	if len(idx) > 0 && byte(p.Tokens().Kind()) != idx[0] {
		c.Violation(key+" kind", fmt.Sprintf("Kind() = %d but the index starts with %d", p.Tokens().Kind(), idx[0]), rp)
		return false
	}
	var back spg.Password
	func() {
		defer func() {
			if x := recover(); x != nil {
				pan = fmt.Sprint(x)
			}
		}()
		back, err = spg.Tokenize(p.String(), idx, p.Entropy)
	}()
	if pan != "" {
		c.Violation(key+" tokenize-panic", "Tokenize panicked on MakeIndices' own output: "+pan, rp)
		return false
	}
	if err != nil {
		c.Violation(key+" roundtrip-error", fmt.Sprintf("Tokenize(%q, %v) failed: %v", trunc(p.String()), []byte(idx), err), rp)
		return false
	}
	if got := toToks(back.Tokens()); tokKey(got) != tokKey(toks) || len(got) != len(toks) {
		c.Violation(key+" roundtrip", fmt.Sprintf("tokens %q came back as %q (index %v)", trunc(tokKey(toks)), trunc(tokKey(got)), []byte(idx)), rp)
		return false
	}
	if math.Float32bits(back.Entropy) != math.Float32bits(p.Entropy) {
		c.Violation(key+" entropy", fmt.Sprintf("entropy %v came back as %v", p.Entropy, back.Entropy), rp)
		return false
	}
	// an index handed out earlier must still decode its own password after
	// MakeIndices has been called for other passwords
	if prevIdx != nil {
		pb, perr := spg.Tokenize(prevStr, prevIdx, 1)
		if perr != nil || tokKey(toToks(pb.Tokens())) != prevKey {
			c.Violation(key+" index-clobbered", fmt.Sprintf("the index %v returned earlier for %q no longer decodes it after a later MakeIndices call (now: %q, err %v)", []byte(prevIdx), trunc(prevKey), trunc(tokKey(toToks(pb.Tokens()))), perr), rp)
			prevIdx = nil
			return false
		}
	}
	if len(idx) <= 80 {
		prevIdx, prevStr, prevKey = idx, p.String(), tokKey(toks)
	}
	c.Count("round_trips_ok", 1)
	c.Count(fmt.Sprintf("kind%d_indices", idx[0]), 1)
	if len(c.R.Outcomes) < 3000 {
		c.Outcome(tokKey(toks))
	}
	return true
}

func c11WLCase(c *core.Ctx, w WLCase, opt CellOpt) {
	r, err := w.build()
	if err != nil {
		return
	}
	bad := false
	st := exploreCell(r.Generate, opt, func(l *Leaf) {
		if bad || !l.Out.HasPw {
			return
		}
		if !c11Password(c, l.Out.Raw, "wordlist", map[string]interface{}{"case": w, "outcomes": l.Outs}) {
			bad = true
		}
	})
	c.Count("nodes", st.Nodes)
	c.Count("edges", st.Edges)
	c.Count("generated_cases", 1)
}

func c11CharCase(c *core.Ctx, r ref.CharRecipe) {
	sr := toSpg(r)
	bad := false
	st := exploreCell(sr.Generate, CellOpt{DepthCut: r.Length, Fallback: 2, MaxMenu: 4096, MaxLeaves: 100000, Dev: -1}, func(l *Leaf) {
		if bad || !l.Out.HasPw {
			return
		}
		if !c11Password(c, l.Out.Raw, "character", map[string]interface{}{"recipe": recipeLit(r), "outcomes": l.Outs}) {
			bad = true
		}
	})
	c.Count("nodes", st.Nodes)
	c.Count("edges", st.Edges)
	c.Count("generated_cases", 1)
}

func c11Run(c *core.Ctx) {
	maxLeaves := int64(3000)
	if c.Thorough() {
		maxLeaves = 100000
	}
	// (a) generated passwords: every leaf of the wordlist cells
	for _, w := range wlCases(maxLeaves, []int{1, 2, 3}) {
		if c.Mine() {
			c11WLCase(c, w, CellOpt{DepthCut: 64, Fallback: 2, MaxMenu: 20000, MaxLeaves: maxLeaves * 4, Dev: -1})
		}
	}
	// long words and separators, ASCII and 2-byte, at and beyond 255 characters
	for _, ch := range []string{"a", "é"} {
		for _, n := range []int{127, 128, 254, 255, 256} {
			for _, sp := range []Sep{{Kind: "none"}, {Kind: "char", Char: "-"}, {Kind: "char", Char: strings.Repeat("é", 255)}, {Kind: "char", Char: strings.Repeat("-", 256)}, {Kind: "SFDigits1"}} {
				for _, cp := range []string{"none", "first"} {
					w := WLCase{Words: []string{strings.Repeat(ch, n), "b" + strings.Repeat(ch, n-1)}, Length: 2, Cap: cp, Sep: sp}
					if c.Mine() {
						c11WLCase(c, w, CellOpt{DepthCut: 64, Fallback: 2, MaxMenu: 20000, MaxLeaves: 5000, Dev: -1})
					}
				}
			}
		}
	}
	// words and separators that are not valid UTF-8 (a Latin-1 word file): each
	// invalid byte is one character; chosen so that no token ends in a byte
	// that could combine with the start of the next one
	for _, cp := range []string{"none", "all", "one"} {
		for _, sp := range []Sep{{Kind: "none"}, {Kind: "char", Char: "-"}, {Kind: "char", Char: "\xb7"}, {Kind: "SFDigits1"}} {
			w := WLCase{Words: []string{"caf\xe9", "na\xefve", "b", "\xff"}, Length: 2, Cap: cp, Sep: sp}
			if c.Mine() {
				c11WLCase(c, w, CellOpt{DepthCut: 64, Fallback: 2, MaxMenu: 20000, MaxLeaves: 5000, Dev: -1})
			}
		}
	}
	if c.Mine() {
		c11CharCase(c, ref.CharRecipe{Length: 2, AllowChars: "a\xff\xfe"})
	}
	// character recipes over multi-byte alphabets
	for _, ab := range []string{"éü💩", "aé", "💩", "ab", "é"} {
		for L := 1; L <= 3; L++ {
			if c.Mine() {
				c11CharCase(c, ref.CharRecipe{Length: L, AllowChars: ab})
			}
		}
	}
	if c.Mine() {
		c11CharCase(c, ref.CharRecipe{Length: 2, Allow: ref.Digits, AllowChars: "é"})
	}
	// long character passwords (one generation each, scripted stream)
	for _, ab := range []string{"ab", "aé", "é💩"} {
		for _, L := range []int{64, 255, 256, 257, 300, 1000, 70000} {
			if !c.Mine() {
				continue
			}
			sr := toSpg(ref.CharRecipe{Length: L, AllowChars: ab})
			install(policyTape(func(b uint32, i int) uint32 { return uint32(i*7+i/3) % b }))
			out := runGen(sr.Generate)
			if out.HasPw {
				c11Password(c, out.Raw, "long-character", map[string]interface{}{"recipe": recipeLit(ref.CharRecipe{Length: L, AllowChars: ab})})
			}
		}
	}
	// every atom/separator pattern of 1..7 tokens (full-index constructions)
	for n := 1; n <= 7; n++ {
		for pat := 0; pat < 1<<uint(n); pat++ {
			if !c.Mine() {
				continue
			}
			for _, two := range []int{-1, 0, n - 1} { // which token (if any) has two characters
				idx := []byte{3}
				pw := ""
				for i := 0; i < n; i++ {
					l := 1
					if i == two {
						l = 2
					}
					idx = append(idx, byte(l), byte(pat>>uint(i)&1))
					pw += strings.Repeat(string(rune('a'+i)), l)
				}
				p, err := spg.Tokenize(pw, idx, 3.5)
				c.Count("tokenize_constructions", 1)
				if err == nil {
					c11Password(c, &p, "pattern", map[string]interface{}{"pw": pw, "index": bytesToInts(idx)})
				}
			}
		}
	}
	// long tokens inside sequences that need the full index: a separator
	// function that returns nothing for some gaps puts two atoms side by side.
	// 255 characters must encode, 256 must be refused (never a lossy index);
	// the long token is a word or the separator
	for _, long := range []int{254, 255, 256, 300} {
		for _, unit := range []string{"x", "é"} {
			for _, w := range []WLCase{
				{Words: []string{strings.Repeat(unit, long), "b"}, Length: 3, Cap: "none", Sep: Sep{Kind: "customMixed"}},
				{Words: []string{"a", "b"}, Length: 3, Cap: "none", Sep: Sep{Kind: "customMixed", Char: strings.Repeat(unit, long)}},
				{Words: []string{strings.Repeat(unit, long)}, Length: 4, Cap: "first", Sep: Sep{Kind: "customMixed", Char: "--"}},
			} {
				if c.Mine() {
					c11WLCase(c, w, CellOpt{DepthCut: 64, Fallback: 2, MaxMenu: 20000, MaxLeaves: 5000, Dev: -1})
				}
			}
		}
	}
	// a 255-character token with an unusual type byte (through Tokenize)
	for _, ty := range []byte{2, 7, 255} {
		for _, unit := range []string{"x", "é"} {
			pw := "a" + strings.Repeat(unit, 255) + "b"
			for _, idx := range [][]byte{{3, 1, 0, 255, ty, 1, 0}, {3, 1, 1, 255, ty, 1, 1}, {3, 255 - 254, ty, 255, 0, 1, ty}} {
				if !c.Mine() {
					continue
				}
				p, err := spg.Tokenize(pw, idx, 3.5)
				c.Count("tokenize_constructions", 1)
				if err == nil {
					c11Password(c, &p, "typed-long", map[string]interface{}{"pw": pw, "index": bytesToInts(idx)})
				}
			}
		}
	}
	// every pattern of 1..5 tokens over the type bytes {separator, atom, 2, 255}
	// (a full index carries the type byte verbatim)
	tyset := []byte{0, 1, 2, 255}
	for n := 1; n <= 5; n++ {
		total := 1
		for i := 0; i < n; i++ {
			total *= len(tyset)
		}
		for pat := 0; pat < total; pat++ {
			if !c.Mine() {
				continue
			}
			idx := []byte{3}
			pw := ""
			unusual := false
			for i, p := 0, pat; i < n; i, p = i+1, p/len(tyset) {
				ty := tyset[p%len(tyset)]
				unusual = unusual || ty > 1
				l := 1 + i%2
				idx = append(idx, byte(l), ty)
				pw += strings.Repeat(string(rune('a'+i)), l)
			}
			if !unusual {
				continue // covered above
			}
			p, err := spg.Tokenize(pw, idx, 3.5)
			c.Count("tokenize_constructions", 1)
			if err == nil {
				c11Password(c, &p, "typed-pattern", map[string]interface{}{"pw": pw, "index": bytesToInts(idx)})
			}
		}
	}
	// (b) token sequences manufactured with Tokenize itself
	alpha := []string{"a", "é", "💩"}
	var strs []string
	var rec func(cur string, n int)
	rec = func(cur string, n int) {
		strs = append(strs, cur)
		if n == 4 {
			return
		}
		for _, a := range alpha {
			rec(cur+a, n+1)
		}
	}
	rec("", 0)
	tailSet := []byte{0, 1, 2, 3, 4}
	for si, s := range strs {
		if !c.MineKey(si) {
			continue
		}
		for kind := byte(0); kind <= 3; kind++ {
			var tail []byte
			var walk func()
			walk = func() {
				idx := append([]byte{kind}, tail...)
				p, err := func() (p spg.Password, err error) {
					defer func() {
						if recover() != nil {
							err = fmt.Errorf("panic")
						}
					}()
					return spg.Tokenize(s, spg.Indices(idx), 7.25)
				}()
				c.Count("tokenize_constructions", 1)
				if err == nil && len(p.Tokens()) > 0 {
					c11Password(c, &p, "constructed", map[string]interface{}{"pw": s, "index": bytesToInts(idx)})
				}
				if len(tail) < 4 {
					for _, b := range tailSet {
						tail = append(tail, b)
						walk()
						tail = tail[:len(tail)-1]
					}
				}
			}
			walk()
		}
	}
	if c.Shard == 0 {
		c.Sample(map[string]interface{}{"origin": "wordlist cell", "case": WLCase{Words: []string{"éa", "Éa", "b"}, Length: 2, Cap: "one", Sep: Sep{Kind: "char", Char: "¡"}}})
		c.Sample(map[string]interface{}{"origin": "constructed", "pw": "aé💩a", "index": []int{3, 1, 1, 2, 0, 1, 1}})
	}
}

func init() {
	Register(&core.Check{
		ID:    "C11",
		Level: "model_checking",
		Rule: "every password of the complete wordlist cells (incl. non-ASCII words/separators, empty separators), 127..256-character words and separators (ASCII and 2-byte), character recipes over multi-byte alphabets (complete cells, lengths 1-3), character passwords of 64-70000 characters, every atom/separator pattern of 1-7 tokens, validity of earlier indices after later MakeIndices calls, and every token sequence constructible with Tokenize from strings of 0-4 characters over {a,é,💩} and indices of kind 0-3 with 0-4 bytes from {0..4}: MakeIndices then Tokenize must reproduce values, types and entropy, the index must have the documented size; " +
			"non-trivial = distinct token sequences round-tripped",
		Assume: []string{"token sequences are those reachable through the public API (Generate, Tokenize)", "an unencodable token (0 or >255 characters) must give an error or at least a lossless index"},
		Run:    c11Run,
	})
	Replayers["C11"] = func(raw json.RawMessage) (string, bool) {
		var rp struct {
			Case   *WLCase         `json:"case"`
			Recipe *ref.CharRecipe `json:"recipe"`
			Pw     string          `json:"pw"`
			Index  []int           `json:"index"`
		}
		json.Unmarshal(raw, &rp)
		c := &core.Ctx{ID: "C11", Tier: "quick", NShards: 1}
		switch {
		case rp.Case != nil:
			c11WLCase(c, *rp.Case, CellOpt{DepthCut: 64, Fallback: 2, MaxMenu: 20000, MaxLeaves: 100000, Dev: -1})
		case rp.Recipe != nil:
			c11CharCase(c, *rp.Recipe)
		default:
			idx := make([]byte, len(rp.Index))
			for i, x := range rp.Index {
				idx[i] = byte(x)
			}
			p, err := spg.Tokenize(rp.Pw, idx, 7.25)
			if err == nil {
				c11Password(c, &p, "constructed", nil)
			}
		}
		return fmt.Sprintf("%s: %d violation(s) %v", string(raw), c.R.NViol, c.R.Violations), c.R.NViol > 0
	}
}
