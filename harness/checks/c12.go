package checks

import (
	"encoding/json"
	"fmt"
	"math"
	"strings"

	"go.1password.io/spg"
	"verif/harness/core"
	"verif/harness/ref"
)

// ---------- C12: Tokenize is total ----------

var c12Strings = []string{"", "a", "ab", "abcde", "é", "aé💩", "\xff", "a\xffb", strings.Repeat("x", 300)}

func c12One(c *core.Ctx, pw string, idx []byte, ent float32) {
	var p spg.Password
	var err error
	pan := ""
	func() {
		defer func() {
			if x := recover(); x != nil {
				pan = fmt.Sprint(x)
			}
		}()
		p, err = spg.Tokenize(pw, spg.Indices(idx), ent)
	}()
	c.Count("executions", 1)
	rp := map[string]interface{}{"pw_hex": fmt.Sprintf("%x", pw), "index": append([]int{}, bytesToInts(idx)...), "entropy_bits": math.Float32bits(ent)}
	kind := "empty"
	if len(idx) > 0 {
		kind = fmt.Sprintf("kind%d", idx[0])
		if idx[0] > 3 {
			kind = "kind>3"
		}
	}
	key := fmt.Sprintf("%s len=%d pw=%q", kind, len(idx), trunc(pw))
	if pan != "" {
		c.Violation("panic "+kind+fmt.Sprintf(" parity=%d", len(idx)%2), fmt.Sprintf("Tokenize(%q, %v) panicked: %s", trunc(pw), idx, pan), rp)
		return
	}
	want, ok := ref.Decode(pw, idx)
	if err != nil {
		c.Count("errors_returned", 1)
		if ok {
			c.Count("errors_on_decodable_input", 1)
		}
		return
	}
	if !ok {
		c.Violation("accepted "+key, fmt.Sprintf("Tokenize(%q, %v) returned tokens %q without error although the index is malformed or too long for the string", trunc(pw), idx, tokKey(toToks(p.Tokens()))), rp)
		return
	}
	got := toToks(p.Tokens())
	if len(got) != len(want) {
		c.Violation("count "+key, fmt.Sprintf("Tokenize(%q, %v) gave %d tokens, the index specifies %d", trunc(pw), idx, len(got), len(want)), rp)
		return
	}
	for i := range got {
		if got[i] != want[i] {
			c.Violation("token "+key, fmt.Sprintf("Tokenize(%q, %v): token %d is %q/type %d, the index specifies %q/type %d", trunc(pw), idx, i, got[i].V, got[i].T, want[i].V, want[i].T), rp)
			return
		}
	}
	if math.Float32bits(p.Entropy) != math.Float32bits(ent) {
		c.Violation("entropy "+key, fmt.Sprintf("entropy %v came back as %v", ent, p.Entropy), rp)
		return
	}
	if !strings.HasPrefix(pw, p.String()) {
		c.Violation("prefix "+key, fmt.Sprintf("String() %q is not a prefix of %q", p.String(), trunc(pw)), rp)
	}
	c.Count("decoded_ok", 1)
	if len(c.R.Outcomes) < 2000 {
		c.Outcome(tokKey(got))
	}
}

func bytesToInts(b []byte) []int {
	out := make([]int, len(b))
	for i, x := range b {
		out[i] = int(x)
	}
	return out
}

func trunc(s string) string {
	if len(s) > 24 {
		return s[:24] + "..."
	}
	return s
}

func c12Run(c *core.Ctx) {
	ents := []float32{0, 12.5, float32(math.Inf(-1)), float32(math.NaN())}
	if c.Thorough() {
		// every index of length 0..3
		for first := 0; first < 256; first++ {
			if !c.MineKey(first) {
				continue
			}
			for _, pw := range c12Strings {
				if first == 0 {
					c12One(c, pw, nil, 1)
				}
				c12One(c, pw, []byte{byte(first)}, 1)
				for b := 0; b < 256; b++ {
					c12One(c, pw, []byte{byte(first), byte(b)}, 1)
					for d := 0; d < 256; d++ {
						c12One(c, pw, []byte{byte(first), byte(b), byte(d)}, 1)
					}
				}
			}
		}
	}
	// every kind byte followed by 0..5 bytes from a small set
	set := []byte{0, 1, 2, 3, 5, 255}
	maxTail := 5
	for first := 0; first < 256; first++ {
		if !c.MineKey(first) {
			continue
		}
		if first > 4 && first < 254 && !c.Thorough() && first%16 != 0 {
			maxTail = 2
		} else {
			maxTail = 5
		}
		tail := make([]int, 0, maxTail)
		var rec func()
		rec = func() {
			idx := make([]byte, 1+len(tail))
			idx[0] = byte(first)
			for i, t := range tail {
				idx[i+1] = set[t]
			}
			for si, pw := range c12Strings {
				e := ents[(si+len(tail))%len(ents)]
				c12One(c, pw, idx, e)
			}
			if len(tail) < maxTail {
				for t := range set {
					tail = append(tail, t)
					rec()
					tail = tail[:len(tail)-1]
				}
			}
		}
		rec()
	}
	if c.Shard == 0 {
		for _, pw := range c12Strings {
			for _, e := range ents {
				c12One(c, pw, nil, e)
				c12One(c, pw, []byte{}, e)
			}
		}
		c.Sample(map[string]interface{}{"pw": "aé💩", "index": []int{3, 1, 1, 2, 0}, "entropy": 12.5})
		c.Sample(map[string]interface{}{"pw": "a\xffb", "index": []int{2, 1, 1, 1}})
	}
}

func init() {
	Register(&core.Check{
		ID:    "C12",
		Level: "model_checking",
		Rule: "9 strings (empty, ASCII, multi-byte, invalid UTF-8, 300 characters) x every index consisting of each kind byte 0..255 followed by 0-5 bytes from {0,1,2,3,5,255} (thorough: additionally every byte string of length 0-3) x 4 entropies (0, 12.5, -Inf, NaN), each run through the real Tokenize with panics recovered and compared with a reference decoder of the documented index format; " +
			"non-trivial = distinct decoded token sequences",
		Assume:    []string{"an error on a decodable index is allowed by the property and only counted"},
		Run:       c12Run,
		StatesKey: "executions", TransKey: "executions",
	})
	Replayers["C12"] = func(raw json.RawMessage) (string, bool) {
		var rp struct {
			PwHex string `json:"pw_hex"`
			Index []int  `json:"index"`
			Bits  uint32 `json:"entropy_bits"`
		}
		json.Unmarshal(raw, &rp)
		var pw []byte
		fmt.Sscanf(rp.PwHex, "%x", &pw)
		idx := make([]byte, len(rp.Index))
		for i, x := range rp.Index {
			idx[i] = byte(x)
		}
		c := &core.Ctx{ID: "C12", Tier: "quick", NShards: 1}
		c12One(c, string(pw), idx, math.Float32frombits(rp.Bits))
		return fmt.Sprintf("Tokenize(%q,%v): %d violation(s) %v", pw, idx, c.R.NViol, c.R.Violations), c.R.NViol > 0
	}
}
