package checks

import (
	"encoding/json"
	"fmt"
	"math"
	"math/big"

	"go.1password.io/spg"
	"verif/harness/core"
	"verif/harness/ref"
	"verif/harness/tape"
)

// ---------- C13: Generate refuses exactly the dishonourable recipes, by error ----------

// policyTape answers every announced draw through f(bound, drawIndex).
// policyWordCap bounds the words a policy tape serves: code that keeps
// drawing for ever (a retry loop that never gives up) is cut off by a panic
// from the tape (tape.Abort) instead of hanging the check.
const policyWordCap = 400000

func policyTape(f func(bound uint32, i int) uint32) *tape.Tape {
	i := 0
	var t *tape.Tape
	served := 0
	t = tape.New(tape.Func(func(bound uint32, announced, cont bool) (uint32, error) {
		served++
		if served > policyWordCap {
			t.AbortNow()
		}
		if !announced || bound == 0 {
			return 0, nil
		}
		o := f(bound, i) % bound
		i++
		w, _ := cal.Rep(bound, o)
		return w, nil
	}))
	t.CloseAfterWord = true
	return t
}

// modelVerdict says whether the library must accept, must refuse or may do
// either for a character recipe at the current MaxTrials/MaxFailRate.
func modelVerdict(r ref.CharRecipe) string {
	ab := r.Alphabet()
	if r.Length < 1 || len(ab) == 0 {
		return "refuse"
	}
	if r.EmptiedReq() {
		return "either"
	}
	cnt := r.Count()
	if cnt.Sign() == 0 {
		return "refuse"
	}
	den := new(big.Int).Exp(big.NewInt(int64(len(ab))), big.NewInt(int64(r.Length)), nil)
	p := new(big.Rat).SetFrac(cnt, den)
	q := new(big.Float).SetPrec(300).SetRat(new(big.Rat).Sub(big.NewRat(1, 1), p))
	f, _ := bigPow(q, spg.MaxTrials).Float64()
	switch {
	case f > spg.MaxFailRate*1.05:
		return "refuse"
	case f < spg.MaxFailRate*0.95:
		return "accept"
	}
	return "either"
}

// pow computes x^n in 300-bit floats.
func bigPow(x *big.Float, n int) *big.Float {
	r := new(big.Float).SetPrec(300).SetInt64(1)
	b := new(big.Float).SetPrec(300).Set(x)
	for n > 0 {
		if n&1 == 1 {
			r.Mul(r, b)
		}
		b.Mul(b, b)
		n >>= 1
	}
	return r
}

func c13Recipe(c *core.Ctx, r ref.CharRecipe) {
	sr := toSpg(r)
	lit := recipeLit(r)
	key := "recipe " + mustJSON(lit)
	rp := map[string]interface{}{"recipe": lit, "MaxTrials": spg.MaxTrials, "MaxFailRate": spg.MaxFailRate}
	ab := r.Alphabet()
	count := r.Count()
	N := len(ab)
	// exact single-attempt success probability
	var p *big.Rat
	if N > 0 && r.Length >= 1 {
		den := new(big.Int).Exp(big.NewInt(int64(N)), big.NewInt(int64(r.Length)), nil)
		p = new(big.Rat).SetFrac(count, den)
	}
	emptied := r.EmptiedReq()

	// SuccessProbability
	if p != nil && !emptied {
		t := tape.New(&tape.Script{})
		install(t)
		var sp float32
		pan := ""
		func() {
			defer func() {
				if x := recover(); x != nil {
					pan = fmt.Sprint(x)
				}
			}()
			sp = sr.SuccessProbability()
		}()
		c.Count("executions", 1)
		if pan != "" {
			c.Violation(key+" sp-panic", "SuccessProbability panicked: "+pan, rp)
		} else {
			pf, _ := p.Float64()
			hmax := float64(r.Length) * math.Log2(float64(N))
			tol := pf*math.Ln2*4*ref.Ulp32(hmax) + 1e-6
			if math.IsNaN(float64(sp)) || math.Abs(float64(sp)-pf) > tol {
				c.Violation(key+" sp", fmt.Sprintf("SuccessProbability() = %v, exact fraction = %s = %v", sp, p.RatString(), pf), rp)
			}
		}
	}

	// the refusal rule
	mustRefuse, mustAccept := false, false
	why := ""
	switch {
	case r.Length < 1:
		mustRefuse, why = true, "non-positive length"
	case N == 0:
		mustRefuse, why = true, "empty alphabet"
	case emptied:
		why = "a required set emptied by exclusion (either)"
	case count.Sign() == 0:
		mustRefuse, why = true, "no string satisfies the requirements"
	case p.Cmp(big.NewRat(1, 1)) == 0 && spg.MaxTrials >= 1:
		// every candidate satisfies the recipe: the failure probability is
		// exactly 0, which is not above any configured limit (0 included)
		mustAccept, why = true, "every candidate satisfies the recipe (failure probability exactly 0)"
	default:
		q := new(big.Float).SetPrec(300).SetRat(new(big.Rat).Sub(big.NewRat(1, 1), p))
		f := bigPow(q, spg.MaxTrials)
		ff, _ := f.Float64()
		pf, _ := p.Float64()
		hmax := float64(r.Length) * math.Log2(float64(N))
		dp := pf*math.Ln2*4*ref.Ulp32(hmax) + 1e-7
		band := float64(spg.MaxTrials)*dp/(1-pf+1e-300) + 1e-6
		if band > 0.5 {
			band = 0.5
		}
		switch {
		case ff > spg.MaxFailRate*(1+band):
			mustRefuse, why = true, fmt.Sprintf("all %d attempts fail with probability %.3g > %g", spg.MaxTrials, ff, spg.MaxFailRate)
		case ff < spg.MaxFailRate*(1-band):
			mustAccept, why = true, fmt.Sprintf("all %d attempts fail with probability %.3g < %g", spg.MaxTrials, ff, spg.MaxFailRate)
		default:
			why = "within rounding of the threshold (either)"
			c.Count("threshold_band_recipes", 1)
		}
	}
	// a tape on which the first candidate is a valid password (if one exists)
	var good []int
	if count.Sign() > 0 && N > 0 && r.Length >= 1 {
		good = validIndices(r, ab)
	}
	t := policyTape(func(bound uint32, i int) uint32 {
		if good != nil && int(bound) == N {
			return uint32(good[i%len(good)])
		}
		return 0
	})
	install(t)
	out := runGen(sr.Generate)
	c.Count("executions", 1)
	refused := !out.HasPw && out.Panic == "" && t.Words == 0
	switch {
	case out.Panic != "":
		c.Violation(key+" panic", "Generate panicked: "+out.Panic, rp)
	case out.HasPw && out.Err != "":
		c.Violation(key+" both", "Generate returned a password together with an error: "+out.Err, rp)
	case mustRefuse && out.HasPw:
		c.Violation(key+" not-refused", fmt.Sprintf("Generate returned %q although the recipe cannot be honoured (%s)", out.Str, why), rp)
	case mustRefuse && !refused:
		// an error after some draws still satisfies the property ("returns an
		// error, no password, no panic"); only counted
		c.Count("refused_after_drawing", 1)
	case mustAccept && !out.HasPw:
		c.Violation(key+" refused", fmt.Sprintf("Generate failed (%s) although the recipe can be honoured: %s", out.Err, why), rp)
	case mustAccept && !r.Valid(tokChars(out.Toks)):
		c.Violation(key+" invalid", fmt.Sprintf("Generate returned %q, which does not satisfy the recipe", out.Str), rp)
	}
	if !mustRefuse && !mustAccept {
		c.Count("either_recipes", 1)
	}
	if mustRefuse {
		c.Count("must_refuse_recipes", 1)
		c.Outcome("refuse:" + why[:min(len(why), 20)])
	}
	if mustAccept {
		c.Count("must_accept_recipes", 1)
		c.Outcome("accept")
		if len(r.Req()) > 0 && p.Cmp(big.NewRat(1, 1)) != 0 {
			c.Sample(map[string]interface{}{"recipe": lit, "p_exact": p.RatString(), "verdict": why})
		}
	}
}

func min(a, b int) int {
	if a < b {
		return a
	}
	return b
}

func tokChars(t []ref.Tok) []string {
	out := make([]string, len(t))
	for i, x := range t {
		out[i] = x.V
	}
	return out
}

// validIndices returns alphabet indices of one valid string of the recipe.
func validIndices(r ref.CharRecipe, ab []string) []int {
	pos := map[string]int{}
	for i, ch := range ab {
		pos[ch] = i
	}
	idx := make([]int, r.Length)
	req := r.Req()
	// greedy: one character per requirement while positions remain, a
	// single character may serve several requirements
	chars := make([]string, 0, r.Length)
	unmet := append([][]string{}, req...)
	for len(unmet) > 0 && len(chars) < r.Length {
		// pick the character that meets the most unmet sets
		best, bestN := "", -1
		for _, ch := range ab {
			n := 0
			for _, s := range unmet {
				for _, x := range s {
					if x == ch {
						n++
						break
					}
				}
			}
			if n > bestN {
				best, bestN = ch, n
			}
		}
		chars = append(chars, best)
		var rest [][]string
		for _, s := range unmet {
			hit := false
			for _, x := range s {
				if x == best {
					hit = true
				}
			}
			if !hit {
				rest = append(rest, s)
			}
		}
		unmet = rest
	}
	for len(chars) < r.Length {
		chars = append(chars, ab[len(ab)-1])
	}
	if !r.Valid(chars) {
		// greedy failed: brute force (small recipes only)
		n := len(ab)
		total := 1
		for i := 0; i < r.Length && total < 1<<22; i++ {
			total *= n
		}
		for v := 0; v < total; v++ {
			x := v
			for i := range chars {
				chars[i] = ab[x%n]
				x /= n
			}
			if r.Valid(chars) {
				break
			}
		}
	}
	for i, ch := range chars {
		idx[i] = pos[ch]
	}
	return idx
}

// c13AllFail drives Generate with a tape on which every candidate misses a
// requirement and checks the attempt budget.
func c13AllFail(c *core.Ctx, r ref.CharRecipe, trials int, rate float64) {
	oldT, oldR := spg.MaxTrials, spg.MaxFailRate
	spg.MaxTrials, spg.MaxFailRate = trials, rate
	defer func() { spg.MaxTrials, spg.MaxFailRate = oldT, oldR }()
	sr := toSpg(r)
	lit := recipeLit(r)
	key := fmt.Sprintf("all-fail %s trials=%d", mustJSON(lit), trials)
	rp := map[string]interface{}{"recipe": lit, "MaxTrials": trials, "MaxFailRate": rate, "tape": "every draw answered with a character outside the first required set"}
	ab := r.Alphabet()
	req := r.Req()
	if len(req) == 0 {
		return
	}
	bad := -1
	for i, ch := range ab {
		in := false
		for _, x := range req[0] {
			if x == ch {
				in = true
			}
		}
		if !in {
			bad = i
			break
		}
	}
	if bad < 0 {
		return
	}
	t := policyTape(func(bound uint32, i int) uint32 { return uint32(bad) })
	install(t)
	out := runGen(sr.Generate)
	c.Count("executions", 1)
	c.Count("allfail_runs", 1)
	if t.Words == 0 {
		c.Count("allfail_refused_upfront", 1)
		if out.HasPw || out.Panic != "" {
			c.Violation(key+" upfront", fmt.Sprintf("no random word consumed yet result is %+v", out), rp)
		}
		return
	}
	switch {
	case out.Aborted:
		c.Violation(key+" budget", fmt.Sprintf("Generate kept drawing (more than %d characters) on a stream where every attempt fails: the attempt budget MaxTrials(%d) is not enforced", policyWordCap, trials), rp)
	case out.Panic != "":
		c.Violation(key+" panic", "Generate panicked when every attempt failed: "+out.Panic, rp)
	case out.HasPw:
		c.Violation(key+" password", fmt.Sprintf("every candidate missed a requirement, yet Generate returned %q", out.Str), rp)
	case out.Err == "":
		c.Violation(key+" noerr", "Generate returned neither a password nor an error", rp)
	case t.Words > trials*r.Length:
		c.Violation(key+" budget", fmt.Sprintf("Generate drew %d characters = more than MaxTrials(%d) x Length(%d) attempts", t.Words, trials, r.Length), rp)
	}
	c.Outcome(fmt.Sprintf("allfail words=%d", t.Words))
}

func c13Degenerate(c *core.Ctx) {
	type wlCase struct {
		name string
		mk   func() spg.WLRecipe
		ok   bool // must succeed
	}
	goodList := func() *spg.WordList { wl, _ := spg.NewWordList([]string{"ab", "cd", "ef"}); return wl }
	cases := []wlCase{
		{"WLRecipe{}", func() spg.WLRecipe { return spg.WLRecipe{} }, false},
		{"WLRecipe{Length:3}", func() spg.WLRecipe { return spg.WLRecipe{Length: 3} }, false},
		{"NewWLRecipe(3,nil)", func() spg.WLRecipe { return *spg.NewWLRecipe(3, nil) }, false},
		{"NewWLRecipe(0,list)", func() spg.WLRecipe { return *spg.NewWLRecipe(0, goodList()) }, false},
		{"NewWLRecipe(-1,list)", func() spg.WLRecipe { return *spg.NewWLRecipe(-1, goodList()) }, false},
		{"NewWLRecipe(3,&WordList{})", func() spg.WLRecipe { return *spg.NewWLRecipe(3, &spg.WordList{}) }, false},
		{"NewWLRecipe(2,list)", func() spg.WLRecipe { return *spg.NewWLRecipe(2, goodList()) }, true},
		{"NewWLRecipe(2,list)+refused separator recipe", func() spg.WLRecipe {
			r := *spg.NewWLRecipe(2, goodList())
			r.SeparatorFunc = spg.NewSFFunction(spg.CharRecipe{Length: 1})
			return r
		}, true},
		{"NewWLRecipe(1,list) cap bogus", func() spg.WLRecipe {
			r := *spg.NewWLRecipe(1, goodList())
			r.Capitalize = "bogus"
			return r
		}, true},
	}
	// every capitalisation scheme and separator setting on the unhonourable ones
	for _, cp := range []spg.CapScheme{spg.CSNone, spg.CSFirst, spg.CSAll, spg.CSOne, spg.CSRandom, "bogus"} {
		for _, L := range []int{0, -1, -1 << 31} {
			for _, withList := range []bool{true, false} {
				for _, sep := range []spg.SFFunction{nil, spg.SFDigits1} {
					cp, L, withList, sep := cp, L, withList, sep
					name := fmt.Sprintf("WLRecipe{Length:%d, Capitalize:%q, list:%v, sepfunc:%v}", L, cp, withList, sep != nil)
					cases = append(cases, wlCase{name, func() spg.WLRecipe {
						var wl *spg.WordList
						if withList {
							wl = goodList()
						}
						r := *spg.NewWLRecipe(L, wl)
						r.Capitalize, r.SeparatorFunc = cp, sep
						return r
					}, false})
				}
			}
		}
		cp := cp
		cases = append(cases, wlCase{fmt.Sprintf("WLRecipe{Length:3, Capitalize:%q, no list}", cp), func() spg.WLRecipe { r := spg.WLRecipe{Length: 3, Capitalize: cp}; return r }, false})
	}
	for _, cs := range cases {
		if !c.Mine() {
			continue
		}
		r := cs.mk()
		t := policyTape(func(bound uint32, i int) uint32 { return 0 })
		install(t)
		out := runGen(r.Generate)
		c.Count("executions", 1)
		c.Count("degenerate_cases", 1)
		key := "wordlist " + cs.name
		rp := map[string]interface{}{"wl_case": cs.name}
		switch {
		case out.Panic != "":
			c.Violation(key+" panic", "Generate panicked: "+out.Panic, rp)
		case out.HasPw && out.Err != "":
			c.Violation(key+" both", "password together with error "+out.Err, rp)
		case !cs.ok && out.HasPw:
			c.Violation(key+" not-refused", fmt.Sprintf("Generate returned %q for a recipe that cannot be honoured", out.Str), rp)
		case !cs.ok && t.Words != 0:
			c.Count("refused_after_drawing", 1)
		case cs.ok && !out.HasPw:
			c.Violation(key+" refused", "Generate failed: "+out.Err, rp)
		}
		c.Outcome(fmt.Sprintf("wl %s pw=%v", cs.name, out.HasPw))
	}
	chars := []ref.CharRecipe{
		{}, {Length: 0, AllowChars: "ab"}, {Length: -1, AllowChars: "ab"}, {Length: -1 << 31, Allow: ref.All}, {Length: 3},
		{Length: 3, AllowChars: "ab", ExcludeChars: "ba"}, {Length: 3, Allow: ref.Digits, Exclude: ref.Digits},
		{Length: 2, Allow: ref.Lowers, Require: ref.Digits, Exclude: ref.Digits, RequireSets: []string{"a"}},
		{Length: 2, Allow: ref.Lowers, Require: ref.Digits, Exclude: ref.Digits},
		{Length: 1, RequireSets: []string{"a", "b"}},
		{Length: 1, RequireSets: []string{"ab", "bc"}},
		{Length: 1, RequireSets: []string{""}},
		{Length: 2, RequireSets: []string{"", "", "a"}},
		{Length: 1, RequireSets: []string{}},
	}
	for _, r := range chars {
		if c.Mine() {
			c13Recipe(c, r)
			c.Count("degenerate_cases", 1)
		}
	}
}

func c13Run(c *core.Ctx) {
	if !charPairs(c) {
		return
	}
	c13Degenerate(c)
	// (a) the overlap universe of C07(a)
	u := []string{"a", "b", "c", "d"}
	allowS := subsetsOf(u, true)
	reqS := subsetsOf(u, false)
	maxSets := 2
	lengths := []int{1, 2, 3, 5, 8}
	if c.Thorough() {
		maxSets = 3
		lengths = []int{1, 2, 3, 4, 5, 6, 7, 8}
	}
	ms := multisets(len(reqS), maxSets)
	for ai, al := range allowS {
		for ei, ex := range allowS {
			if !c.Thorough() && len(ex) > 2 {
				continue
			}
			if !c.MineKey(ai*len(allowS) + ei) {
				continue // all required-set variants of one (allow, exclude) pair run in one process, in sequence
			}
			for _, m := range ms {
				var rs []string
				for _, i := range m {
					rs = append(rs, reqS[i])
				}
				for _, L := range lengths {
					c13Recipe(c, ref.CharRecipe{Length: L, AllowChars: al, ExcludeChars: ex, RequireSets: rs})
				}
			}
		}
		if c.Expired() {
			c.Incomplete("deadline in part (a)")
			return
		}
	}
	// flag triples
	for trip := 0; trip < 1<<15; trip++ {
		al, rq, ex := uint32(trip&31), uint32(trip>>5&31), uint32(trip>>10&31)
		if !c.Mine() {
			continue
		}
		ls := []int{1, 4}
		if c.Thorough() {
			ls = []int{1, 2, 3, 4, 6, 8, 20}
		}
		for _, L := range ls {
			c13Recipe(c, ref.CharRecipe{Length: L, Allow: al, Require: rq, Exclude: ex})
			if c.Thorough() || trip%7 == 0 {
				c13Recipe(c, ref.CharRecipe{Length: L, Allow: al, Require: rq, Exclude: ex, RequireSets: []string{"357"}})
			}
		}
	}
	// long recipes (entropies beyond 1024 bits, where 2^H overflows a float64)
	big4096 := ""
	for i := 0; i < 4096; i++ {
		big4096 += string(rune(0x4e00 + i))
	}
	longL := []int{86, 100, 172, 173, 174, 180, 256, 1000}
	if c.Thorough() {
		longL = []int{80, 85, 86, 90, 100, 150, 170, 171, 172, 173, 174, 175, 180, 200, 255, 256, 257, 500, 1000, 2000, 5000}
	}
	for _, L := range longL {
		for _, r := range []ref.CharRecipe{
			{Length: L, Allow: ref.All, Exclude: ref.Ambiguous},
			{Length: L, Allow: ref.All, Require: ref.Digits},
			{Length: L, Allow: ref.Letters | ref.Digits, RequireSets: []string{"ab", "bc"}},
			{Length: L, AllowChars: big4096},
			{Length: L, AllowChars: big4096, Require: ref.Digits},
			{Length: L, AllowChars: "ab"},
		} {
			if c.Mine() {
				c13Recipe(c, r)
			}
		}
	}
	// (c) attempt budget on an all-fail tape
	budgets := []struct {
		t int
		r float64
	}{{200, 1e-9}, {3, 0.9}, {1, 1}, {2, 1}, {7, 0.5}, {200, 0}, {1, 0}, {5, 1e-300}}
	plain := []ref.CharRecipe{
		{Length: 3, AllowChars: "ab"},
		{Length: 20, Allow: ref.All, Exclude: ref.Ambiguous},
		{Length: 1, Allow: ref.Digits},
		{Length: 2, Allow: ref.Digits, Require: ref.Digits},
	}
	for _, b := range budgets {
		for _, r := range plain {
			if c.Mine() {
				oldT, oldR := spg.MaxTrials, spg.MaxFailRate
				spg.MaxTrials, spg.MaxFailRate = b.t, b.r
				c13Recipe(c, r)
				spg.MaxTrials, spg.MaxFailRate = oldT, oldR
			}
		}
	}
	fails := []ref.CharRecipe{
		{Length: 2, AllowChars: "ab", RequireSets: []string{"1"}},
		{Length: 3, AllowChars: "ab", RequireSets: []string{"1", "é"}},
		{Length: 4, Allow: ref.Lowers, Require: ref.Digits},
		{Length: 1, AllowChars: "a", RequireSets: []string{"b"}},
		{Length: 5, Allow: ref.All, Require: ref.Digits | ref.Symbols, Exclude: ref.Ambiguous},
		{Length: 2, AllowChars: "abc", RequireSets: []string{"ab", "bc"}},
	}
	for _, b := range budgets {
		for _, r := range fails {
			if c.Mine() {
				c13AllFail(c, r, b.t, b.r)
				// the refusal rule under non-default budgets
				oldT, oldR := spg.MaxTrials, spg.MaxFailRate
				spg.MaxTrials, spg.MaxFailRate = b.t, b.r
				for L := 1; L <= 6; L++ {
					rr := r
					rr.Length = L
					c13Recipe(c, rr)
				}
				spg.MaxTrials, spg.MaxFailRate = oldT, oldR
			}
		}
	}
}

func init() {
	Register(&core.Check{
		ID:    "C13",
		Level: "model_checking",
		Rule: "every recipe of the overlap universe {a,b,c,d} (allow/exclude subsets x multisets of 0-2/0-3 required subsets x lengths 1-8), all 2^15 class-flag triples, structurally degenerate character and wordlist recipes, and an all-attempts-fail tape policy under 5 (MaxTrials, MaxFailRate) settings, each run on the real SuccessProbability/Generate; " +
			"oracle: exact rational success probability, refusal iff cannot be honoured (with a rounding band around the threshold), never a panic, never password+error, at most MaxTrials*Length draws; non-trivial = must-accept recipes with requirements and must-refuse recipes",
		Assume:    []string{"recipes in which exclusion empties one required set are classified 'either' (C03 reads them as void, C13's wording allows refusing)"},
		Run:       c13Run,
		StatesKey: "executions", TransKey: "executions",
	})
	Replayers["C13"] = func(raw json.RawMessage) (string, bool) {
		var rp struct {
			Recipe      *ref.CharRecipe `json:"recipe"`
			MaxTrials   int
			MaxFailRate float64
			Tape        string `json:"tape"`
			WL          string `json:"wl_case"`
		}
		json.Unmarshal(raw, &rp)
		c := &core.Ctx{ID: "C13", Tier: "quick", NShards: 1}
		switch {
		case rp.WL != "":
			c13Degenerate(c)
		case rp.Tape != "":
			c13AllFail(c, *rp.Recipe, rp.MaxTrials, rp.MaxFailRate)
		default:
			if rp.MaxTrials > 0 {
				spg.MaxTrials, spg.MaxFailRate = rp.MaxTrials, rp.MaxFailRate
			}
			c13Recipe(c, *rp.Recipe)
		}
		return fmt.Sprintf("%s: %d violation(s) %v", string(raw), c.R.NViol, c.R.Violations), c.R.NViol > 0
	}
}
