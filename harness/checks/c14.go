package checks

import (
	"encoding/json"
	"fmt"
	"math"
	"os"
	"path/filepath"
	"reflect"
	"runtime"
	"runtime/debug"
	"runtime/pprof"
	"sort"
	"strconv"
	"strings"
	"time"

	"go.1password.io/spg"
	"verif/harness/core"
	"verif/harness/explore"
	"verif/harness/sched"
	"verif/harness/tape"
	"verif/harness/verifrt"
	"verif/harness/verifrt/vsync"
)

// ---------- C14: recipes, word lists and separator functions are safe to share ----------

type c14Shared struct {
	c     spg.CharRecipe
	req   []string
	words []string
	wl    *spg.WordList
	w     *spg.WLRecipe
	w2    *spg.WLRecipe
	w3    *spg.WLRecipe
	sf    spg.SFFunction
	c2    spg.CharRecipe // class flags: Allow, Require and Exclude all set
	sfBad spg.SFFunction // its recipe is refused: the error path of separator functions
	w4    *spg.WLRecipe
	c3    spg.CharRecipe // requires the Ambiguous class (the one flag without a name)
	sf2   spg.SFFunction // two-character separators, no requirement
	w6    *spg.WLRecipe  // uses the preset SFDigits2
	w5    *spg.WLRecipe  // a list of more than 4096 words with one uncapitalisable word near the end
	c5    spg.CharRecipe // overlapping required sets (the inclusion-exclusion count)
	c6    spg.CharRecipe // another recipe with overlapping required sets
	c7    spg.CharRecipe // custom required sets listed out of lexical order, exclusions of both kinds
	sfEx  spg.SFFunction // constructed separator function whose recipe has exclusions
}

// needBigList is set while a scenario that uses the 5001-word list runs
// (building it for every schedule of every scenario would be wasteful).
var needBigList bool

func newC14Shared() *c14Shared {
	x := &c14Shared{}
	x.req = []string{"1"}
	x.c = spg.CharRecipe{Length: 2, AllowChars: "ab", RequireSets: x.req}
	x.words = []string{"ab", "cd", "efg"}
	wl, err := spg.NewWordList(x.words)
	if err != nil {
		panic(err)
	}
	x.wl = wl
	x.w = spg.NewWLRecipe(2, wl)
	x.w.Capitalize = spg.CSOne
	x.w.SeparatorFunc = spg.SFDigits1
	x.w2 = spg.NewWLRecipe(2, wl)
	x.w2.Capitalize = spg.CSRandom
	x.w2.SeparatorFunc = spg.SFDigits1
	x.sf = spg.NewSFFunction(spg.CharRecipe{Length: 1, AllowChars: "xy", RequireSets: []string{"z"}})
	x.c2 = spg.CharRecipe{Length: 3, Allow: spg.Lowers, Require: spg.Digits | spg.Symbols, Exclude: spg.Ambiguous}
	x.c3 = spg.CharRecipe{Length: 2, Allow: spg.Lowers, Require: spg.Ambiguous}
	x.sf2 = spg.NewSFFunction(spg.CharRecipe{Length: 2, AllowChars: "xyz"})
	x.c5 = spg.CharRecipe{Length: 3, AllowChars: "abcd", RequireSets: []string{"ab", "bc"}}
	x.c6 = spg.CharRecipe{Length: 4, Allow: spg.Digits, RequireSets: []string{"12", "23", "31"}}
	x.c7 = spg.CharRecipe{Length: 3, Allow: spg.Lowers, RequireSets: []string{"zy", "ab", "mn"}, Exclude: spg.Ambiguous, ExcludeChars: "q"}
	x.sfEx = spg.NewSFFunction(spg.CharRecipe{Length: 1, Allow: spg.Digits | spg.Symbols, Exclude: spg.Ambiguous, ExcludeChars: "9"})
	x.w6 = spg.NewWLRecipe(2, wl)
	x.w6.SeparatorFunc = spg.SFDigits2
	if needBigList {
		big := make([]string, 0, 5001)
		for i := 0; i < 5000; i++ {
			big = append(big, fmt.Sprintf("w%dx", i))
		}
		big = append(big[:4990], append([]string{"4"}, big[4990:]...)...)
		bwl, err := spg.NewWordList(big)
		if err != nil {
			panic(err)
		}
		x.w5 = spg.NewWLRecipe(2, bwl)
		x.w5.Capitalize = spg.CSRandom
	}
	x.sfBad = spg.NewSFFunction(spg.CharRecipe{Length: 0, AllowChars: "xy"}) // refused at once: the error path
	x.w4 = spg.NewWLRecipe(2, wl)
	x.w4.SeparatorFunc = x.sfBad
	x.w3 = spg.NewWLRecipe(2, wl)
	x.w3.Capitalize = spg.CSAll
	x.w3.SeparatorFunc = x.sf
	return x
}

func (x *c14Shared) snapshot() string {
	return fmt.Sprintf("%q|", x.c7.RequireSets) + fmt.Sprintf("%+v|%q|%q|%q|%d|%d %s %q %v|%d %s %q", spg.CharRecipe{Length: x.c.Length, Allow: x.c.Allow, Require: x.c.Require, Exclude: x.c.Exclude, AllowChars: x.c.AllowChars, ExcludeChars: x.c.ExcludeChars},
		x.c.RequireSets, x.req, x.words, spg.VerifUncapitalizable(x.wl), x.w.Length, x.w.Capitalize, x.w.SeparatorChar, x.w.SeparatorFunc == nil, x.w2.Length, x.w2.Capitalize, x.w2.SeparatorChar) + strings.Join(spg.VerifWords(x.wl), ",")
}

type c14Call struct {
	Name string
	Do   func(x *c14Shared) string
}

func genStr(g func() (*spg.Password, error)) string { return renderGen(runGenNoRaw(g)) }

// runGenNoRaw is runGen without keeping the *Password (results are compared as strings).
func runGenNoRaw(g func() (*spg.Password, error)) GenOut {
	o := runGen(g)
	o.Raw = nil
	return o
}

var c14Calls = map[string]c14Call{
	"c.Generate":            {"c.Generate", func(x *c14Shared) string { return genStr(x.c.Generate) }},
	"c.Entropy":             {"c.Entropy", func(x *c14Shared) string { return fmt.Sprintf("%08x", math.Float32bits(x.c.Entropy())) }},
	"c.Alphabet":            {"c.Alphabet", func(x *c14Shared) string { return x.c.Alphabet() }},
	"c.SuccessProbability":  {"c.SuccessProbability", func(x *c14Shared) string { return fmt.Sprintf("%08x", math.Float32bits(x.c.SuccessProbability())) }},
	"c2.Generate":           {"c2.Generate", func(x *c14Shared) string { return genStr(x.c2.Generate) }},
	"c2.Entropy":            {"c2.Entropy", func(x *c14Shared) string { return fmt.Sprintf("%08x", math.Float32bits(x.c2.Entropy())) }},
	"w.Generate":            {"w.Generate", func(x *c14Shared) string { return genStr(x.w.Generate) }},
	"w.Entropy":             {"w.Entropy", func(x *c14Shared) string { return fmt.Sprintf("%08x", math.Float32bits(x.w.Entropy())) }},
	"w.Size":                {"w.Size", func(x *c14Shared) string { return fmt.Sprintf("%d %d", x.w.Size(), x.wl.Size()) }},
	"w2.Generate":           {"w2.Generate", func(x *c14Shared) string { return genStr(x.w2.Generate) }},
	"w3.Generate":           {"w3.Generate", func(x *c14Shared) string { return genStr(x.w3.Generate) }},
	"w3.Entropy":            {"w3.Entropy", func(x *c14Shared) string { return fmt.Sprintf("%08x", math.Float32bits(x.w3.Entropy())) }},
	"c3.Generate":           {"c3.Generate", func(x *c14Shared) string { return genStr(x.c3.Generate) }},
	"c3.Entropy":            {"c3.Entropy", func(x *c14Shared) string { return fmt.Sprintf("%08x", math.Float32bits(x.c3.Entropy())) }},
	"c5.Generate":           {"c5.Generate", func(x *c14Shared) string { return genStr(x.c5.Generate) }},
	"c5.Entropy":            {"c5.Entropy", func(x *c14Shared) string { return fmt.Sprintf("%08x", math.Float32bits(x.c5.Entropy())) }},
	"c5.SuccessProbability": {"c5.SuccessProbability", func(x *c14Shared) string { return fmt.Sprintf("%08x", math.Float32bits(x.c5.SuccessProbability())) }},
	"c6.Entropy":            {"c6.Entropy", func(x *c14Shared) string { return fmt.Sprintf("%08x", math.Float32bits(x.c6.Entropy())) }},
	"c6.Generate":           {"c6.Generate", func(x *c14Shared) string { return genStr(x.c6.Generate) }},
	"c7.Generate":           {"c7.Generate", func(x *c14Shared) string { return genStr(x.c7.Generate) }},
	"c7.Entropy":            {"c7.Entropy", func(x *c14Shared) string { return fmt.Sprintf("%08x", math.Float32bits(x.c7.Entropy())) }},
	"c7.Alphabet":           {"c7.Alphabet", func(x *c14Shared) string { return x.c7.Alphabet() }},
	"c7.SuccessProbability": {"c7.SuccessProbability", func(x *c14Shared) string { return fmt.Sprintf("%08x", math.Float32bits(x.c7.SuccessProbability())) }},
	"sfEx()": {"sfEx()", func(x *c14Shared) string {
		s, e := x.sfEx()
		return fmt.Sprintf("%q %08x", s, math.Float32bits(float32(e)))
	}},
	"SFDigitsNoAmbiguous1()": {"SFDigitsNoAmbiguous1()", func(x *c14Shared) string {
		s, e := spg.SFDigitsNoAmbiguous1()
		return fmt.Sprintf("%q %08x", s, math.Float32bits(float32(e)))
	}},
	"SFDigitsNoAmbiguous2()": {"SFDigitsNoAmbiguous2()", func(x *c14Shared) string {
		s, e := spg.SFDigitsNoAmbiguous2()
		return fmt.Sprintf("%q %08x", s, math.Float32bits(float32(e)))
	}},
	"SFSymbols()": {"SFSymbols()", func(x *c14Shared) string {
		s, e := spg.SFSymbols()
		return fmt.Sprintf("%q %08x", s, math.Float32bits(float32(e)))
	}},
	"SFDigitsSymbols()": {"SFDigitsSymbols()", func(x *c14Shared) string {
		s, e := spg.SFDigitsSymbols()
		return fmt.Sprintf("%q %08x", s, math.Float32bits(float32(e)))
	}},
	"SFNone()": {"SFNone()", func(x *c14Shared) string {
		s, e := spg.SFNone()
		return fmt.Sprintf("%q %08x", s, math.Float32bits(float32(e)))
	}},
	"sf2()": {"sf2()", func(x *c14Shared) string {
		s, e := x.sf2()
		return fmt.Sprintf("%q %08x", s, math.Float32bits(float32(e)))
	}},
	"SFDigits2()": {"SFDigits2()", func(x *c14Shared) string {
		s, e := spg.SFDigits2()
		return fmt.Sprintf("%q %08x", s, math.Float32bits(float32(e)))
	}},
	"w6.Generate": {"w6.Generate", func(x *c14Shared) string { return genStr(x.w6.Generate) }},
	"w5.Generate": {"w5.Generate", func(x *c14Shared) string { return genStr(x.w5.Generate) }},
	"w5.Entropy":  {"w5.Entropy", func(x *c14Shared) string { return fmt.Sprintf("%08x", math.Float32bits(x.w5.Entropy())) }},
	"sfBad()": {"sfBad()", func(x *c14Shared) string {
		s, e := x.sfBad()
		return fmt.Sprintf("%q %08x", s, math.Float32bits(float32(e)))
	}},
	"w4.Generate": {"w4.Generate", func(x *c14Shared) string { return genStr(x.w4.Generate) }},
	"sf()": {"sf()", func(x *c14Shared) string {
		s, e := x.sf()
		return fmt.Sprintf("%q %08x", s, math.Float32bits(float32(e)))
	}},
	"SFDigits1()": {"SFDigits1()", func(x *c14Shared) string {
		s, e := spg.SFDigits1()
		return fmt.Sprintf("%q %08x", s, math.Float32bits(float32(e)))
	}},
}

// a scenario: per thread, the list of calls it makes in order
type c14Scenario struct {
	Name    string
	Threads [][]string
	// MaxTrials, when not 0, is the value of the package's tuning variable
	// while the scenario runs (set by the caller before any goroutine starts)
	MaxTrials int
}

var c14Scenarios = []c14Scenario{
	{"Generate||Generate (same character recipe)", [][]string{{"c.Generate"}, {"c.Generate"}}, 0},
	{"Generate||Entropy (same character recipe)", [][]string{{"c.Generate"}, {"c.Entropy"}}, 0},
	{"Generate||Alphabet||SuccessProbability", [][]string{{"c.Generate"}, {"c.Alphabet"}, {"c.SuccessProbability"}}, 0},
	{"WL Generate||WL Generate (same recipe)", [][]string{{"w.Generate"}, {"w.Generate"}}, 0},
	{"WL Generate||WL Entropy||Size", [][]string{{"w.Generate"}, {"w.Entropy"}, {"w.Size"}}, 0},
	{"two WL recipes sharing list and SFDigits1", [][]string{{"w.Generate"}, {"w2.Generate"}}, 0},
	{"sf()||sf() (constructed separator function)", [][]string{{"sf()"}, {"sf()"}}, 0},
	{"two calls each: Generate,Entropy || Generate,Alphabet", [][]string{{"c.Generate", "c.Entropy"}, {"c.Generate", "c.Alphabet"}}, 0},
	{"SFDigits1()||w.Generate", [][]string{{"SFDigits1()"}, {"w.Generate"}}, 0},
	{"three threads Generate on one character recipe", [][]string{{"c.Generate"}, {"c.Generate"}, {"c.Generate"}}, 0},
	{"Entropy||Entropy||SuccessProbability (same character recipe)", [][]string{{"c.Entropy"}, {"c.Entropy"}, {"c.SuccessProbability"}}, 0},
	{"Alphabet||Alphabet", [][]string{{"c.Alphabet"}, {"c.Alphabet"}}, 0},
	{"WL two calls each: Generate,Generate || Generate,Entropy", [][]string{{"w.Generate", "w.Generate"}, {"w.Generate", "w.Entropy"}}, 0},
	{"w3.Generate (uses sf) || sf()", [][]string{{"w3.Generate"}, {"sf()"}}, 0},
	{"w3.Generate || w3.Entropy || w.Generate", [][]string{{"w3.Generate"}, {"w3.Entropy"}, {"w.Generate"}}, 0},
	{"failing separator function: sfBad()||sfBad()", [][]string{{"sfBad()"}, {"sfBad()"}}, 0},
	{"recipe with failing separator: w4.Generate||w4.Generate||sfBad()", [][]string{{"w4.Generate"}, {"w4.Generate"}, {"sfBad()"}}, 0},
	{"Require Ambiguous: Generate||Generate||Entropy", [][]string{{"c3.Generate"}, {"c3.Generate"}, {"c3.Entropy"}}, 0},
	{"two-character separators: sf2()||sf2()", [][]string{{"sf2()"}, {"sf2()"}}, 0},
	{"SFDigits2: w6.Generate||SFDigits2()||w6.Generate", [][]string{{"w6.Generate"}, {"SFDigits2()"}, {"w6.Generate"}}, 0},
	{"5001-word list: w5.Generate||w5.Entropy||w5.Generate", [][]string{{"w5.Generate"}, {"w5.Entropy"}, {"w5.Generate"}}, 0},
	{Name: "overlapping required sets: c5.Entropy||c5.SuccessProbability||c5.Generate", Threads: [][]string{{"c5.Entropy"}, {"c5.SuccessProbability"}, {"c5.Generate"}}},
	{Name: "overlapping required sets, two recipes: c5.Entropy||c6.Entropy||c6.Generate", Threads: [][]string{{"c5.Entropy"}, {"c6.Entropy"}, {"c6.Generate"}}},
	{Name: "unsorted custom required sets: c7.Generate||c7.Entropy||c7.Alphabet", Threads: [][]string{{"c7.Generate"}, {"c7.Entropy"}, {"c7.Alphabet"}}},
	{Name: "separator functions with exclusions: SFDigitsNoAmbiguous1()||SFDigitsNoAmbiguous1()||sfEx()", Threads: [][]string{{"SFDigitsNoAmbiguous1()"}, {"SFDigitsNoAmbiguous1()"}, {"sfEx()"}}},
	{Name: "MaxTrials=10: w2.Generate||c.Generate||SFDigits1()", Threads: [][]string{{"w2.Generate"}, {"c.Generate"}, {"SFDigits1()"}}, MaxTrials: 10},
	{Name: "MaxTrials=10: sf()||c2.Generate", Threads: [][]string{{"sf()"}, {"c2.Generate"}}, MaxTrials: 10},
	{Name: "MaxTrials=1000: w3.Generate||c.Entropy||c.Generate", Threads: [][]string{{"w3.Generate"}, {"c.Entropy"}, {"c.Generate"}}, MaxTrials: 1000},
	{"class-flag recipe: Generate||Generate", [][]string{{"c2.Generate"}, {"c2.Generate"}}, 0},
	{"class-flag recipe: Generate||Entropy||Generate(other recipe)", [][]string{{"c2.Generate"}, {"c2.Entropy"}, {"c.Generate"}}, 0},
}

// per-thread tape policies: thread 0's first candidate fails the requirement
var c14Policies = []func(b uint32, i int) uint32{
	func(b uint32, i int) uint32 {
		if i < 2 {
			return b - 1
		}
		return uint32(i) % b
	},
	func(b uint32, i int) uint32 { return uint32(i*5+1) % b },
	func(b uint32, i int) uint32 { return uint32(i*3+2) % b },
}

func raceLogSize() (int64, string) {
	prefix := os.Getenv("VERIF_RACE_LOG")
	if prefix == "" {
		return 0, ""
	}
	name := fmt.Sprintf("%s.%d", prefix, os.Getpid())
	st, err := os.Stat(name)
	if err != nil {
		return 0, name
	}
	return st.Size(), name
}

// c14Replay runs exactly one recorded schedule of a scenario.
func c14Replay(c *core.Ctx, si int, plan []int) {
	fixedPlan = append([]int{}, plan...)
	useFixed = true
	defer func() { useFixed = false }()
	if c14ReplaySc != nil {
		c14Scenario1(c, -1, *c14ReplaySc, 0)
		return
	}
	c14Scenario1(c, si, c14Scenarios[si], 0)
}

var (
	fixedPlan   []int
	useFixed    bool
	c14PairMode bool // battery scenario: its replay record carries the calls, not an index
	c14ReplaySc *c14Scenario
)

func c14Scenario1(c *core.Ctx, si int, sc c14Scenario, bound int) {
	n := len(sc.Threads)
	// sequential results of every call on its thread's tape, each thread on
	// its own freshly built values. They are computed only AFTER the first
	// schedule has run, so that the first schedule of a worker process sees
	// package-level lazily initialised state cold (each scenario is the
	// first one in some worker: the scenario order is rotated by shard).
	var want [][]string
	mkTape := func(i int) *tape.Tape { return policyTape(c14Policies[i]) }
	needBigList = false
	for _, calls := range sc.Threads {
		for _, name := range calls {
			if strings.HasPrefix(name, "w5.") {
				needBigList = true
			}
		}
	}
	for _, calls := range sc.Threads {
		for _, name := range calls {
			if c14Calls[name].Do == nil {
				panic("c14: scenario uses unknown call " + name)
			}
		}
	}
	trials0 := spg.MaxTrials
	if sc.MaxTrials != 0 {
		spg.MaxTrials = sc.MaxTrials
	}
	defer func() { spg.MaxTrials = trials0 }()
	computeWant := func() {
		if sc.MaxTrials != 0 {
			spg.MaxTrials = sc.MaxTrials
		}
		want = make([][]string, n)
		for i, calls := range sc.Threads {
			x0 := newC14Shared()
			t := mkTape(i)
			install(t)
			for _, name := range calls {
				want[i] = append(want[i], safe(func() string { return c14Calls[name].Do(x0) }))
			}
		}
	}
	// every schedule runs on brand-new shared values: lazily initialised
	// state is uninitialised at the start of each execution
	x := newC14Shared()
	snap := x.snapshot()
	got := make([][]string, n)
	tapes := make([]*tape.Tape, n)
	tape.Dispatch = func() *tape.Tape {
		if id := sched.CurrentID(); id >= 0 && int(id) < len(tapes) {
			return tapes[id]
		}
		return nil
	}
	defer func() { tape.Dispatch = nil }()
	bodies := make([]func(), n)
	for i := range bodies {
		i := i
		bodies[i] = func() {
			for _, name := range sc.Threads[i] {
				got[i] = append(got[i], safe(func() string { return c14Calls[name].Do(x) }))
			}
		}
	}
	ch := explore.New(bound)
	ch.AllowFirstDev = func(pos int) bool { return pos%c.NShards == c.Shard }
	key := "scenario " + sc.Name
	logSize, logName := raceLogSize()
	bad := false
	diverged := false
	for ch.Begin() {
		if c.Expired() {
			c.Incomplete("deadline in scenario %q (bound %d) after %d schedules of this shard", sc.Name, bound, ch.Executions)
			break
		}
		plan := append([]int{}, ch.Prefix()...)
		if useFixed {
			plan = fixedPlan
		}
		if sc.MaxTrials != 0 {
			spg.MaxTrials = sc.MaxTrials
		}
		x = newC14Shared()
		for i := range tapes {
			tapes[i] = mkTape(i)
			got[i] = got[i][:0]
		}
		tr := sched.Run(bodies, plan)
		if len(tr.Taken) < len(plan) && !useFixed {
			// the execution had fewer scheduling points than the schedule it
			// was asked to replay: the code under test is not deterministic
			// under a fixed schedule (e.g. sync.Pool, map order in golang-set)
			c.Count("schedule_replay_divergences", 1)
			c.Incomplete("schedule replay diverged in %q (execution shorter than its plan): scenario abandoned", sc.Name)
			// still judge this execution's results below, then stop
			tr.Diverged = false
			diverged = true
			ch.SetTrace(append(append([]int{}, tr.Taken...), make([]int, len(plan)-len(tr.Taken))...), append(append([]int{}, tr.Menus...), onesInts(len(plan)-len(tr.Taken))...))
		} else {
			ch.SetTrace(tr.Taken, tr.Menus)
		}
		if useFixed {
			ch.Bound = 0 // one execution only
		}
		c.Count("executions", 1)
		if ch.Executions%64 == 0 {
			// collect now, while every managed thread is parked: the
			// background collector is starved by threads waiting in raw
			// futex calls and the heap would otherwise wander (see c14Run)
			runtime.GC()
		}
		c.Max("max_points_per_schedule", int64(len(tr.Taken)))
		c.Max("max_switches", int64(tr.Switches))
		rp := map[string]interface{}{"scenario": si, "name": sc.Name, "plan": plan}
		if si < 0 {
			rp["threads"] = sc.Threads
			rp["max_trials"] = sc.MaxTrials
		}
		if tr.Overflow {
			c.Incomplete("more than %d scheduling points in %q", 1<<16, sc.Name)
			break
		}
		if tr.Diverged {
			c.Incomplete("schedule replay diverged in %q (uncontrolled nondeterminism); scenario abandoned", sc.Name)
			break
		}
		if tr.Deadlock {
			c.Violation(key+" deadlock", "no thread can run (deadlock) under schedule "+fmt.Sprint(plan), rp)
			bad = true
		}
		if want == nil {
			saved := make([][]string, n)
			for i := range got {
				saved[i] = append([]string{}, got[i]...)
			}
			computeWant()
			for i := range got {
				got[i] = saved[i]
			}
		}
		for i := range want {
			for _, w := range want[i] {
				if strings.HasPrefix(w, "panic:") {
					c.Incomplete("scenario %q: a call panics even when run alone (%s); not a concurrency verdict", sc.Name, w)
					bad = true
				}
			}
			if bad {
				break
			}
			if !reflect.DeepEqual(got[i], want[i]) {
				c.Violation(key+" result", fmt.Sprintf("thread %d (%v) returned %q under schedule %v; alone on the same random stream it returns %q", i, sc.Threads[i], got[i], plan, want[i]), rp)
				bad = true
			}
		}
		if s2 := x.snapshot(); s2 != snap {
			c.Violation(key+" shared-state", fmt.Sprintf("shared values changed: %s -> %s", snap, s2), rp)
			bad = true
		}
		if sz, _ := raceLogSize(); sz != logSize {
			b, _ := os.ReadFile(logName)
			rep := string(b[logSize:])
			logSize = sz
			first := rep
			if len(first) > 1800 {
				first = first[:1800]
			}
			c.Violation(key+" data-race", fmt.Sprintf("the race detector reported under schedule %v:\n%s", plan, first), rp)
			bad = true
		}
		if bad || diverged {
			break
		}
		if len(c.R.Outcomes) < 500 {
			c.Outcome(fmt.Sprintf("%s sw=%d %v", sc.Name, tr.Switches, got))
		}
	}
	c.Count("nodes", ch.Nodes)
	c.Count("edges", ch.Edges)
	{
		var ms runtime.MemStats
		runtime.ReadMemStats(&ms)
		c.Max("heap_inuse_mb", int64(ms.HeapInuse>>20))
		c.Max("heap_sys_mb", int64(ms.Sys>>20))
		c.Max("goroutines", int64(runtime.NumGoroutine()))
	}
	if si >= 0 {
		c.Count(fmt.Sprintf("schedules_scenario_%d_bound_%d", si, bound), ch.Executions)
	}
	c.Count("scenario_runs", 1)
}

func c14Run(c *core.Ctx) {
	if verifrtMissing() {
		c.Incomplete("worker not built from the instrumented copy")
		return
	}
	if os.Getenv("VERIF_RACE_LOG") == "" {
		c.Incomplete("race log not configured")
	}
	// calibrate every (bound, outcome) the policy tapes can ask for now:
	// calibration swaps tapes and must not happen inside a managed thread
	for n := uint32(1); n <= 128; n++ {
		for r := uint32(0); r < n; r++ {
			cal.Rep(n, r)
		}
	}
	for r := uint32(0); r < 5001; r++ {
		cal.Rep(5001, r) // the big list of scenario w5
	}
	// keep the Go heap small and compact: under the race detector every page
	// the heap ever touches keeps its shadow memory, so a heap that is allowed
	// to wander costs several GB per worker over a 40-minute run
	debug.SetGCPercent(20)
	debug.SetMemoryLimit(256 << 20)
	verifrt.PointHook = sched.Point
	vsync.BlockHook = sched.Block
	vsync.UnblockHook = sched.Unblock
	// watchdog: a hang (e.g. a real deadlock inside an unmanaged helper) must
	// not turn into a silent timeout
	go func() {
		last, since := int32(-1), time.Now()
		for {
			time.Sleep(2 * time.Second)
			p := sched.Progress()
			if sched.CurrentID() >= 0 && p == last {
				if time.Since(since) > 60*time.Second {
					fmt.Fprintln(os.Stderr, "c14: no scheduling progress for 60s: hang")
					os.Exit(4)
				}
			} else {
				last, since = p, time.Now()
			}
		}
	}()
	type job struct {
		si    int
		bound int
	}
	var jobs []job
	for si := range c14Scenarios {
		jobs = append(jobs, job{si, 1})
	}
	if c.Thorough() {
		for si, sc := range c14Scenarios {
			if len(sc.Threads) == 2 {
				jobs = append(jobs, job{si, 2})
			}
		}
	}
	// rotate: scenario (shard mod #scenarios) comes first in this worker
	if len(jobs) > 0 {
		k := c.Shard % len(c14Scenarios)
		var first, rest []job
		for _, j := range jobs {
			if j.si == k && j.bound == 1 {
				first = append(first, j)
			} else {
				rest = append(rest, j)
			}
		}
		jobs = append(first, rest...)
	}
	if only := os.Getenv("VERIF_C14_ONLY"); only != "" { // debugging aid; never set by the registered commands
		var keep []job
		for _, j := range jobs {
			if fmt.Sprint(j.si) == only {
				keep = append(keep, j)
			}
		}
		jobs = keep
	}
	for _, j := range jobs {
		if c.Expired() {
			c.Incomplete("deadline before scenario %d bound %d", j.si, j.bound)
			continue
		}
		c14Scenario1(c, j.si, c14Scenarios[j.si], j.bound)
	}
	// battery: every unordered pair of calls of the alphabet (and every call
	// with itself) on two threads, the default schedule only, under the default
	// retry budget and under MaxTrials = 10. The hand-off between the two
	// threads is no happens-before edge, so one schedule is enough for the race
	// detector to see any state that both calls touch unsynchronised; the
	// deviation-bounded exploration above is what finds atomicity failures.
	if os.Getenv("VERIF_C14_ONLY") == "" {
		var names []string
		for name := range c14Calls {
			if !strings.HasPrefix(name, "w5.") { // (the 5001-word list is covered by its own scenario)
				names = append(names, name)
			}
		}
		sort.Strings(names)
		k := 0
		for _, mt := range []int{0, 10} {
			for i, a := range names {
				for _, b := range names[i:] {
					if mt != 0 && !c14UsesSeparator(a) && !c14UsesSeparator(b) {
						continue // the tuned battery: pairs involving a separator function
					}
					k++
					if k%c.NShards != c.Shard {
						continue
					}
					if c.Expired() {
						c.Incomplete("deadline in the pair battery")
						break
					}
					sc := c14Scenario{Name: fmt.Sprintf("pair %s||%s", a, b), Threads: [][]string{{a}, {b}}, MaxTrials: mt}
					if mt != 0 {
						sc.Name = fmt.Sprintf("MaxTrials=%d: %s", mt, sc.Name)
					}
					c14PairMode = true
					c14Scenario1(c, -1, sc, 0)
					c14PairMode = false
					c.Count("pair_battery_scenarios", 1)
				}
			}
		}
	}
	if pf := os.Getenv("VERIF_C14_HEAPPROF"); pf != "" && c.Shard == 1 { // debugging aid; never set by the registered commands
		if f, err := os.Create(pf); err == nil {
			runtime.GC()
			pprof.WriteHeapProfile(f)
			f.Close()
		}
	}
	if c.Shard == 0 {
		c.Sample(map[string]interface{}{"scenario": c14Scenarios[0].Name, "plan": []int{0, 0, 0, 1}, "meaning": "thread 0 runs 3 statements, is preempted, thread 1 runs to completion, thread 0 resumes"})
	}
}

// c14UsesSeparator: calls that run a separator function.
func c14UsesSeparator(name string) bool {
	return strings.Contains(name, "sf") || strings.Contains(name, "SF") || (strings.HasPrefix(name, "w") && strings.Contains(name, "Generate")) || strings.HasSuffix(name, ".Entropy") && strings.HasPrefix(name, "w")
}

func c14Prepare(tier string) ([]string, func(), error) {
	dir, err := os.MkdirTemp("", "verif-c14-")
	if err != nil {
		return nil, nil, err
	}
	prefix := filepath.Join(dir, "race")
	return []string{"VERIF_RACE_LOG=" + prefix, "GORACE=log_path=" + prefix + " atexit_sleep_ms=0 halt_on_error=0 exitcode=0"}, func() { os.RemoveAll(dir) }, nil
}

func init() {
	Register(&core.Check{
		ID:    "C14",
		Level: "model_checking",
		Build: "race",
		Rule: "30 scenarios of 2-3 threads x 1-2 calls on shared CharRecipe, WLRecipe, WordList, constructed and preset separator functions (some under MaxTrials = 10 / 1000), plus a battery of every unordered pair of the ~44 calls of the alphabet on the default schedule; scheduling points before every statement of package spg and at every lock operation of golang-set (instrumented copy, -race build); ALL schedules with at most 1 deviation from the default schedule (quick; thorough: at most 2 on every two-thread scenario) are executed by a controlled scheduler whose hand-offs are invisible to the race detector; " +
			"every schedule starts from freshly built shared values (lazily initialised state is cold); oracle per schedule: every call returns what it returns alone on the same random stream, shared values unchanged, no deadlock, race detector silent; non-trivial = distinct (scenario, switches, results) observations",
		Assume:  []string{"bounded deviations (preemptions and non-default thread choices both cost 1)", "memory-model effects beyond what the race detector flags are not modelled", "helper goroutines spawned by golang-set's Iter() talk only to their spawner and run free"},
		Run:     c14Run,
		Prepare: c14Prepare,
		// the race detector's memory grows with the number of schedules a
		// process has run (about 2-3 MB/s here, 4 GB per worker after 40
		// minutes: 16 such workers exhaust a 62 GB machine). thorough
		// therefore runs 64 shards, 16 at a time, 10 minutes each.
		Shards: func(tier string) int {
			if tier == "quick" {
				return 16
			}
			return 64
		},
		Budget: func(tier string) time.Duration {
			if e := os.Getenv("VERIF_C14_BUDGET_S"); e != "" { // ad-hoc runs only; the registered commands do not set it
				if v, err := strconv.Atoi(e); err == nil && v > 0 {
					return time.Duration(v) * time.Second
				}
			}
			if tier == "quick" {
				return 150 * time.Second
			}
			return 10 * time.Minute
		},
	})
	Replayers["C14"] = func(raw json.RawMessage) (string, bool) {
		var rp struct {
			Scenario  int        `json:"scenario"`
			Plan      []int      `json:"plan"`
			Name      string     `json:"name"`
			Threads   [][]string `json:"threads"`
			MaxTrials int        `json:"max_trials"`
		}
		json.Unmarshal(raw, &rp)
		c14ReplaySc = nil
		if rp.Scenario < 0 {
			c14ReplaySc = &c14Scenario{Name: rp.Name, Threads: rp.Threads, MaxTrials: rp.MaxTrials}
		}
		if verifrtMissing() {
			return "C14 replays need the instrumented -race worker (use ./run C14 quick --replay <file>)", false
		}
		verifrt.PointHook = sched.Point
		vsync.BlockHook = sched.Block
		vsync.UnblockHook = sched.Unblock
		c := &core.Ctx{ID: "C14", Tier: "quick", NShards: 1}
		c14Replay(c, rp.Scenario, rp.Plan)
		name := rp.Name
		if rp.Scenario >= 0 {
			name = c14Scenarios[rp.Scenario].Name
		}
		return fmt.Sprintf("scenario %q schedule %v: %d violation(s) %v", name, rp.Plan, c.R.NViol, c.R.Violations), c.R.NViol > 0
	}
}

func onesInts(n int) []int {
	out := make([]int, n)
	for i := range out {
		out[i] = 1
	}
	return out
}
