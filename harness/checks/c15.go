package checks

import (
	"encoding/json"
	"fmt"
	"math"
	"math/big"
	"reflect"
	"strings"

	"go.1password.io/spg"
	"verif/harness/core"
	"verif/harness/ref"
	"verif/harness/tape"
)

// ---------- C15: calls are pure / history independent ----------

type c15World struct {
	c         spg.CharRecipe
	reqBack   []string // the slice the caller handed to c.RequireSets (backing array kept by the caller)
	reqOn     bool
	w         *spg.WLRecipe
	words     []string // the slice handed to NewWordList
	wl        *spg.WordList
	sfRec     spg.CharRecipe
	sfOn      bool
	sf        spg.SFFunction
	sfReq     spg.SFFunction
	sfReqSets []string
}

var c15Words = []string{"ab", "cd", "efg", "Ab"}

func newWorld() *c15World {
	x := &c15World{}
	// the caller's slice has spare capacity beyond what the recipe sees
	x.reqBack = []string{"a", "", "xy", "SPARE1", "SPARE2"}
	x.reqOn = true
	x.c = spg.CharRecipe{Length: 2, AllowChars: "abc", RequireSets: x.reqBack[:3]}
	x.words = append([]string{}, c15Words...)
	wl, err := spg.NewWordList(x.words)
	if err != nil {
		panic(err)
	}
	x.wl = wl
	x.w = spg.NewWLRecipe(1, wl)
	x.sfRec = spg.CharRecipe{Length: 1, AllowChars: "-+="}
	x.sf = spg.NewSFFunction(x.sfRec)
	// a separator function over a recipe with a requirement (one attempt
	// succeeds with probability 1/2): generated under the default retry
	// budget, refused when the caller sets MaxTrials to 1
	x.sfReqSets = []string{"x"}
	x.sfReq = spg.NewSFFunction(spg.CharRecipe{Length: 1, AllowChars: "xy", RequireSets: x.sfReqSets})
	return x
}

// fresh builds brand-new values with the same public fields.
func (x *c15World) fresh() *c15World {
	y := &c15World{reqOn: x.reqOn, sfOn: x.sfOn}
	if x.c.RequireSets != nil {
		y.reqBack = append([]string{}, x.c.RequireSets...)
	}
	y.c = spg.CharRecipe{Length: x.c.Length, Allow: x.c.Allow, Require: x.c.Require, Exclude: x.c.Exclude,
		AllowChars: x.c.AllowChars, ExcludeChars: x.c.ExcludeChars}
	if x.c.RequireSets != nil {
		y.c.RequireSets = y.reqBack
	}
	y.words = append([]string{}, c15Words...)
	wl, err := spg.NewWordList(y.words)
	if err != nil {
		panic(err)
	}
	y.wl = wl
	y.w = spg.NewWLRecipe(x.w.Length, wl)
	y.w.Capitalize = x.w.Capitalize
	y.w.SeparatorChar = x.w.SeparatorChar
	y.sfRec = spg.CharRecipe{Length: 1, AllowChars: "-+="}
	y.sf = spg.NewSFFunction(y.sfRec)
	y.sfReqSets = append([]string{}, x.sfReqSets...)
	y.sfReq = spg.NewSFFunction(spg.CharRecipe{Length: 1, AllowChars: "xy", RequireSets: y.sfReqSets})
	if x.w.SeparatorFunc != nil {
		y.w.SeparatorFunc = y.sf
	}
	return y
}

type c15Snap struct {
	C       spg.CharRecipe
	Req     []string
	ReqBack []string
	WLen    int
	WCap    spg.CapScheme
	WSepCh  string
	WSepNil bool
	Words   []string
	Kept    []string
	Uncap   int
	SfRec   spg.CharRecipe
	SfReq   []string
	// the exported package variables are caller-visible state too
	MaxTrials   int
	MaxFailRate float64
}

func (x *c15World) snap() c15Snap {
	s := c15Snap{C: spg.CharRecipe{Length: x.c.Length, Allow: x.c.Allow, Require: x.c.Require, Exclude: x.c.Exclude, AllowChars: x.c.AllowChars, ExcludeChars: x.c.ExcludeChars},
		WLen: x.w.Length, WCap: x.w.Capitalize, WSepCh: x.w.SeparatorChar, WSepNil: x.w.SeparatorFunc == nil,
		Words: append([]string{}, x.words...), Kept: spg.VerifWords(x.wl), Uncap: spg.VerifUncapitalizable(x.wl),
		SfRec:     spg.CharRecipe{Length: x.sfRec.Length, AllowChars: x.sfRec.AllowChars},
		SfReq:     append([]string{}, x.sfReqSets...),
		MaxTrials: spg.MaxTrials, MaxFailRate: spg.MaxFailRate}
	if x.c.RequireSets != nil {
		s.Req = append([]string{}, x.c.RequireSets...)
	}
	s.ReqBack = append([]string{}, x.reqBack[:cap(x.reqBack)]...)
	return s
}

var c15Tapes = []func(b uint32, i int) uint32{
	func(b uint32, i int) uint32 { return uint32(i*3 + 1) },
	func(b uint32, i int) uint32 { return (b*16 - 1 - uint32(i)) % b },
}

// c15MakeTape: tapes 0 and 1 are policies; tape 2 is policy 0 with the source
// failing at the second read.
func c15MakeTape(k int) *tape.Tape {
	if k == 2 || k == 3 {
		t := policyTape(c15Tapes[0])
		t.FaultAt, t.Fault = 2, tape.Fault{Deliver: (k - 2) * 2, Err: errInjected}
		return t
	}
	return policyTape(c15Tapes[k])
}

type c15Op struct {
	Name  string
	Query func(x *c15World) string // returns a rendering of the result; nil for updates
	Upd   func(x *c15World)
	Tape  int
}

func renderGen(o GenOut) string {
	return fmt.Sprintf("pw=%v toks=%s ent=%08x err=%q panic=%q", o.HasPw, tokKey(o.Toks), math.Float32bits(o.Entropy), o.Err, o.Panic)
}

func safe(f func() string) (s string) {
	defer func() {
		if x := recover(); x != nil {
			s = fmt.Sprint("panic: ", x)
		}
	}()
	return f()
}

func c15Ops() []c15Op {
	return []c15Op{
		{Name: "Generate(c,t1)", Tape: 0, Query: func(x *c15World) string { return renderGen(runGen(x.c.Generate)) }},
		{Name: "Generate(c,t2)", Tape: 1, Query: func(x *c15World) string { return renderGen(runGen(x.c.Generate)) }},
		{Name: "Entropy(c)", Query: func(x *c15World) string {
			return safe(func() string { return fmt.Sprintf("%08x", math.Float32bits(x.c.Entropy())) })
		}},
		{Name: "Alphabet(c)", Query: func(x *c15World) string { return safe(func() string { return x.c.Alphabet() }) }},
		{Name: "SuccessProbability(c)", Query: func(x *c15World) string {
			return safe(func() string { return fmt.Sprintf("%08x", math.Float32bits(x.c.SuccessProbability())) })
		}},
		{Name: "Generate(w,t1)", Tape: 0, Query: func(x *c15World) string { return renderGen(runGen(x.w.Generate)) }},
		{Name: "Entropy(w)", Tape: 1, Query: func(x *c15World) string {
			return safe(func() string { return fmt.Sprintf("%08x", math.Float32bits(x.w.Entropy())) })
		}},
		{Name: "SFDigits1()", Tape: 0, Query: func(x *c15World) string {
			return safe(func() string { s, e := spg.SFDigits1(); return fmt.Sprintf("%q %08x", s, math.Float32bits(float32(e))) })
		}},
		{Name: "sf()", Tape: 1, Query: func(x *c15World) string {
			return safe(func() string { s, e := x.sf(); return fmt.Sprintf("%q %08x", s, math.Float32bits(float32(e))) })
		}},
		{Name: "sfReq()", Tape: 1, Query: func(x *c15World) string {
			return safe(func() string { s, e := x.sfReq(); return fmt.Sprintf("%q %08x", s, math.Float32bits(float32(e))) })
		}},
		{Name: "sfBad()", Tape: 0, Query: func(x *c15World) string {
			// a separator function whose recipe cannot be honoured (two
			// disjoint required sets, one character): the documented error path
			bad := spg.NewSFFunction(spg.CharRecipe{Length: 1, AllowChars: "ab", RequireSets: []string{"1", "2"}})
			return safe(func() string { s, e := bad(); return fmt.Sprintf("%q %08x", s, math.Float32bits(float32(e))) })
		}},
		{Name: "Generate(w) on a source that fails at read 2 (panic recovered)", Tape: 2, Query: func(x *c15World) string { return renderGen(runGen(x.w.Generate)) }},
		{Name: "Generate(c) on a source that fails at read 2 (panic recovered)", Tape: 2, Query: func(x *c15World) string { return renderGen(runGen(x.c.Generate)) }},
		{Name: "Generate(w) on a source that fails at read 2 after delivering 2 bytes", Tape: 3, Query: func(x *c15World) string { return renderGen(runGen(x.w.Generate)) }},
		{Name: "Generate(value copy of w with SeparatorChar +)", Tape: 1, Query: func(x *c15World) string {
			cp := *x.w
			cp.SeparatorChar = "+"
			cp.Length = 2
			return renderGen(runGen(cp.Generate))
		}},
		{Name: "MaxTrials 200<->1", Upd: func(x *c15World) {
			// (a package variable the caller may set; c15Seq restores it)
			if spg.MaxTrials == 1 {
				spg.MaxTrials = c15T0
			} else {
				spg.MaxTrials = 1
			}
		}},
		{Name: "c.Length 2<->3", Upd: func(x *c15World) { x.c.Length = 5 - x.c.Length }},
		{Name: "c.Allow ^= Digits", Upd: func(x *c15World) { x.c.Allow ^= spg.Digits }},
		{Name: "c.Require ^= Symbols", Upd: func(x *c15World) { x.c.Require ^= spg.Symbols }},
		{Name: "c.ExcludeChars \"\"<->\"a\"", Upd: func(x *c15World) {
			if x.c.ExcludeChars == "" {
				x.c.ExcludeChars = "a"
			} else {
				x.c.ExcludeChars = ""
			}
		}},
		{Name: "RequireSets[0] a<->b in place", Upd: func(x *c15World) {
			if x.reqBack[0] == "a" {
				x.reqBack[0] = "b"
			} else {
				x.reqBack[0] = "a"
			}
		}},
		{Name: "c.RequireSets nil<->slice", Upd: func(x *c15World) {
			if x.c.RequireSets == nil {
				x.c.RequireSets = x.reqBack[:3]
			} else {
				x.c.RequireSets = nil
			}
		}},
		{Name: "w.Length 1<->2", Upd: func(x *c15World) { x.w.Length = 3 - x.w.Length }},
		{Name: "w.Capitalize none->all->random->one->none", Upd: func(x *c15World) {
			switch x.w.Capitalize {
			case spg.CSNone:
				x.w.Capitalize = spg.CSAll
			case spg.CSAll:
				x.w.Capitalize = spg.CSRandom
			case spg.CSRandom:
				x.w.Capitalize = spg.CSOne
			default:
				x.w.Capitalize = spg.CSNone
			}
		}},
		{Name: "w.SeparatorFunc nil<->sf", Upd: func(x *c15World) {
			if x.w.SeparatorFunc == nil {
				x.w.SeparatorFunc = x.sf
			} else {
				x.w.SeparatorFunc = nil
			}
		}},
		{Name: "w.SeparatorChar \"\"<->\"-\"", Upd: func(x *c15World) {
			if x.w.SeparatorChar == "" {
				x.w.SeparatorChar = "-"
			} else {
				x.w.SeparatorChar = ""
			}
		}},
	}
}

// c15Model checks a query result against the reference model evaluated on
// the CURRENT public fields (catches state cached outside the values, which
// the differential oracle cannot see because fresh values share it).
func c15Model(x *c15World, op, got string) string {
	mr := ref.CharRecipe{Length: x.c.Length, Allow: uint32(x.c.Allow), Require: uint32(x.c.Require), Exclude: uint32(x.c.Exclude),
		AllowChars: x.c.AllowChars, ExcludeChars: x.c.ExcludeChars, RequireSets: x.c.RequireSets}
	wc := WLCase{Words: c15Words, Length: x.w.Length, Cap: string(x.w.Capitalize), Sep: Sep{Kind: "none"}}
	if x.w.SeparatorFunc != nil {
		wc.Sep = Sep{Kind: "sf", Recipe: &ref.CharRecipe{Length: 1, AllowChars: "-+="}}
	} else if x.w.SeparatorChar != "" {
		wc.Sep = Sep{Kind: "char", Char: x.w.SeparatorChar}
	}
	switch {
	case op == "Alphabet(c)":
		if want := strings.Join(mr.Alphabet(), ""); got != want {
			return "alphabet of the current fields is " + want
		}
	case strings.HasPrefix(op, "Generate(c"):
		t := policyTape(c15Tapes[map[bool]int{true: 0, false: 1}[strings.Contains(op, "t1")]])
		install(t)
		out := runGen(x.c.Generate)
		if out.HasPw {
			ab := map[string]bool{}
			for _, ch := range mr.Alphabet() {
				ab[ch] = true
			}
			if msg := c03Check(mr, out, ab); msg != "" {
				return msg
			}
		}
	case op == "Entropy(c)" && !mr.EmptiedReq():
		var bits uint32
		fmt.Sscanf(got, "%08x", &bits)
		e := float64(math.Float32frombits(bits))
		cnt := mr.Count()
		if cnt.Sign() > 0 {
			if want := ref.Log2Big(cnt); math.Abs(e-want) > 2*ref.Ulp32(want) {
				return fmt.Sprintf("entropy of the current fields is %v", want)
			}
		}
	case strings.HasPrefix(op, "Generate(value copy of w"):
		// the copy must honour ITS fields: separator "+" unless a separator function is set
		wc2 := wc
		wc2.Length = 2
		if x.w.SeparatorFunc == nil {
			wc2.Sep = Sep{Kind: "char", Char: "+"}
		}
		cp := *x.w
		cp.SeparatorChar = "+"
		cp.Length = 2
		install(policyTape(c15Tapes[1]))
		out := runGen(cp.Generate)
		if out.HasPw {
			if msg := c05Leaf(wc2, out); msg != "" {
				return msg
			}
		}
	case op == "Generate(w,t1)":
		install(policyTape(c15Tapes[0]))
		out := runGen(x.w.Generate)
		if out.HasPw {
			if msg := c05Leaf(wc, out); msg != "" {
				return msg
			}
		}
	case op == "sfReq()":
		if spg.MaxTrials == 1 && got != `"" 00000000` {
			return "with MaxTrials = 1 the separator recipe (success chance 1/2 per attempt) is refused, so the function yields the empty separator with no entropy"
		}
		if spg.MaxTrials != 1 && !strings.HasPrefix(got, `"x" `) {
			return "the separator recipe requires x: the separator is x"
		}
	case op == "sfBad()":
		if got != `"" 00000000` {
			return "a separator function whose recipe is refused yields the empty separator with no entropy"
		}
	case op == "Entropy(w)":
		var bits uint32
		fmt.Sscanf(got, "%08x", &bits)
		e := float64(math.Float32frombits(bits))
		if want := wc.entropyModel(); math.Abs(e-want) > 4*ref.Ulp32(want) {
			return fmt.Sprintf("entropy of the current fields is %v", want)
		}
	}
	return ""
}

// c15Seq runs one operation sequence from a fresh world.
var c15T0, c15R0 = spg.MaxTrials, spg.MaxFailRate

func c15Seq(c *core.Ctx, ops []c15Op, seq []int) bool {
	spg.MaxTrials, spg.MaxFailRate = c15T0, c15R0
	defer func() { spg.MaxTrials, spg.MaxFailRate = c15T0, c15R0 }()
	x := newWorld()
	names := make([]string, len(seq))
	for i, k := range seq {
		names[i] = ops[k].Name
	}
	for step, k := range seq {
		op := ops[k]
		if op.Upd != nil {
			op.Upd(x)
			continue
		}
		before := x.snap()
		t := c15MakeTape(op.Tape)
		install(t)
		got := op.Query(x)
		t.EndCall()
		after := x.snap()
		// the same call on freshly built values with the same public fields
		y := x.fresh()
		ft := c15MakeTape(op.Tape)
		install(ft)
		want := op.Query(y)
		ft.EndCall()
		install(tape.New(&tape.Script{}))
		c.Count("executions", 2)
		c.Count("queries_checked", 1)
		rp := map[string]interface{}{"sequence": names, "step": step}
		key := "op " + op.Name
		if strings.HasPrefix(got, "panic:") {
			c.Violation(key+" panics", fmt.Sprintf("after %v, %s panicked: %s", names[:step], op.Name, got), rp)
			return false
		}
		if !reflect.DeepEqual(before, after) {
			c.Violation(key+" mutates", fmt.Sprintf("after %v, %s changed caller-visible state: %+v -> %+v", names[:step], op.Name, before, after), rp)
			return false
		}
		if got != want || t.Served != ft.Served {
			c.Violation(key+" history", fmt.Sprintf("after %v, %s returned [%s] (%d bytes read); the same call on freshly built values with the same fields returns [%s] (%d bytes)", names[:step], op.Name, got, t.Served, want, ft.Served), rp)
			return false
		}
		if msg := c15Model(x, op.Name, got); msg != "" {
			c.Violation(key+" stale", fmt.Sprintf("after %v, %s returned [%s], which does not reflect the recipe's current fields: %s", names[:step], op.Name, got, msg), rp)
			return false
		}
		if len(c.R.Outcomes) < 3000 {
			c.Outcome(op.Name + "=" + got)
		}
	}
	c.Count("nodes", 1)
	c.Count("edges", 1)
	return true
}

// ---------- part B: ordered pairs of confusable recipes ----------
//
// A result must not depend on which OTHER recipe was used before. The pool
// holds recipes that differ only in how the same characters are split over
// fields or strings (the classic ways an incomplete cache key collides); for
// every ordered pair (A, B) all queries run on A and then on B in the same
// process, and B's answers are checked against the reference model.

func c15CharPool() []ref.CharRecipe {
	var pool []ref.CharRecipe
	add := func(r ref.CharRecipe) {
		for _, L := range []int{2, 3} {
			r.Length = L
			pool = append(pool, r)
		}
	}
	for _, rq := range [][]string{{"ab", "c"}, {"a", "bc"}, {"abc"}, {"a", "b", "c"}, {"c", "ab"}} {
		add(ref.CharRecipe{AllowChars: "abcd", RequireSets: rq})
	}
	for _, sep := range []string{",", " ", "|", ";", "\x00", "/", "\"", "] [", "\n"} {
		add(ref.CharRecipe{AllowChars: "z", RequireSets: []string{"x" + sep + "y"}})
		add(ref.CharRecipe{AllowChars: "z", RequireSets: []string{"x", sep + "y"}})
	}
	add(ref.CharRecipe{AllowChars: "z", RequireSets: []string{"x", "y"}})
	add(ref.CharRecipe{AllowChars: "ab", ExcludeChars: "c"})
	add(ref.CharRecipe{AllowChars: "abc"})
	add(ref.CharRecipe{AllowChars: "a", ExcludeChars: "bc"})
	add(ref.CharRecipe{AllowChars: "abc", ExcludeChars: "c"})
	add(ref.CharRecipe{AllowChars: "abc", RequireSets: []string{"c"}})
	add(ref.CharRecipe{Allow: ref.Digits, Require: ref.Symbols})
	add(ref.CharRecipe{Allow: ref.Symbols, Require: ref.Digits})
	add(ref.CharRecipe{Allow: ref.Digits | ref.Symbols})
	add(ref.CharRecipe{Allow: ref.Digits, Exclude: ref.Ambiguous})
	add(ref.CharRecipe{Allow: ref.Digits, Exclude: ref.Ambiguous, ExcludeChars: "89"})
	// nested and repeated required sets (signs of inclusion-exclusion terms),
	// next to recipes whose counts are 0, 1 and a small power
	add(ref.CharRecipe{AllowChars: "abcd", RequireSets: []string{"ab", "abc"}})
	add(ref.CharRecipe{AllowChars: "abc", RequireSets: []string{"ab", "abc"}})
	add(ref.CharRecipe{RequireSets: []string{"ab", "ab"}})
	add(ref.CharRecipe{Allow: ref.Digits, Require: ref.Digits})
	add(ref.CharRecipe{AllowChars: "a", RequireSets: []string{"a"}})
	pool = append(pool, ref.CharRecipe{Length: 1, Allow: ref.Digits, Require: ref.Digits}, ref.CharRecipe{Length: 1, AllowChars: "abc", RequireSets: []string{"ab", "abc"}},
		ref.CharRecipe{Length: 1, AllowChars: "a", RequireSets: []string{"a"}})
	add(ref.CharRecipe{Allow: ref.Digits | ref.Symbols, Exclude: ref.Ambiguous | ref.Symbols})
	add(ref.CharRecipe{Allow: ref.All, Exclude: ref.Ambiguous})
	add(ref.CharRecipe{Allow: ref.Digits | ref.Symbols, Exclude: ref.Ambiguous, ExcludeChars: "@*"})
	add(ref.CharRecipe{Allow: ref.Digits | ref.Ambiguous})
	add(ref.CharRecipe{Allow: ref.Digits, Exclude: ref.Symbols})
	add(ref.CharRecipe{Allow: 1, Require: 23})
	add(ref.CharRecipe{Allow: 12, Require: 3})
	add(ref.CharRecipe{Allow: ref.Digits, AllowChars: "0", RequireSets: []string{"1"}})
	add(ref.CharRecipe{Allow: ref.Digits, AllowChars: "01"})
	// same concatenation, opposite sides of the refusal threshold
	pool = append(pool, ref.CharRecipe{Length: 2, Allow: ref.Lowers, RequireSets: []string{"x", "y"}}, ref.CharRecipe{Length: 2, Allow: ref.Lowers, RequireSets: []string{"xy"}},
		ref.CharRecipe{Length: 2, Allow: ref.Lowers, RequireSets: []string{"xy", ""}})
	return pool
}

// checkCharAgainstModel runs every query of a character recipe and compares with the model.
func checkCharAgainstModel(r ref.CharRecipe) string {
	sr := toSpg(r)
	install(tape.New(&tape.Script{}))
	if got, want := safe(func() string { return sr.Alphabet() }), strings.Join(r.Alphabet(), ""); got != want {
		return fmt.Sprintf("Alphabet() = %q, want %q", got, want)
	}
	cnt := r.Count()
	ab := r.Alphabet()
	if !r.EmptiedReq() && cnt.Sign() > 0 {
		e := float64(sr.Entropy())
		if want := ref.Log2Big(cnt); math.IsNaN(e) || math.Abs(e-want) > 2*ref.Ulp32(want) {
			return fmt.Sprintf("Entropy() = %v, want %v", e, want)
		}
		num, _ := new(big.Float).SetInt(cnt).Float64()
		p := num / math.Pow(float64(len(ab)), float64(r.Length))
		if sp := float64(sr.SuccessProbability()); math.Abs(sp-p) > 1e-4 {
			return fmt.Sprintf("SuccessProbability() = %v, want %v", sp, p)
		}
		if math.Pow(1-p, 200) > 1e-8 {
			t := policyTape(func(b uint32, i int) uint32 { return 0 })
			install(t)
			if out := runGen(sr.Generate); out.HasPw {
				return fmt.Sprintf("Generate did not refuse a recipe whose %d attempts all fail with probability %.3g", 200, math.Pow(1-p, 200))
			}
		}
		if math.Pow(1-p, 200) < 1e-10 {
			good := validIndices(r, ab)
			t := policyTape(func(b uint32, i int) uint32 {
				if int(b) == len(ab) {
					return uint32(good[i%len(good)])
				}
				return 0
			})
			install(t)
			out := runGen(sr.Generate)
			if !out.HasPw {
				return "Generate failed: " + out.Err + out.Panic
			}
			abSet := map[string]bool{}
			for _, ch := range ab {
				abSet[ch] = true
			}
			if msg := c03Check(r, out, abSet); msg != "" {
				return "Generate: " + msg
			}
		}
	}
	return ""
}

// charPairs: every ordered pair (A, B) of the confusable character recipes;
// A's queries run first, then B is checked against the model. Shared by the
// checks of the properties B's answers belong to (C02/C03/C07/C13/C15).
func charPairs(c *core.Ctx) bool {
	pool := c15CharPool()
	for i, a := range pool {
		for j, b := range pool {
			if i == j || !c.Mine() {
				continue
			}
			checkCharAgainstModel(a)
			c.Count("executions", 8)
			c.Count("pairs_checked", 1)
			if msg := checkCharAgainstModel(b); msg != "" {
				c.Violation("pair char", fmt.Sprintf("after the queries on recipe %s, recipe %s answers wrongly: %s", mustJSON(recipeLit(a)), mustJSON(recipeLit(b)), msg),
					map[string]interface{}{"first": recipeLit(a), "second": recipeLit(b), "pair": true})
				return false
			}
		}
	}
	return true
}

func c15Pairs(c *core.Ctx) {
	if !charPairs(c) {
		return
	}
	// wordlist recipes sharing one *WordList (and, for a second list of the
	// same size, nothing but the size)
	words := []string{"ab", "cd", "efg"}
	wl, _ := spg.NewWordList(append([]string{}, words...))
	words2 := []string{"ab", "Cd", "efg"} // same size, one uncapitalisable word
	wl2, _ := spg.NewWordList(append([]string{}, words2...))
	type wr struct {
		w WLCase
		r *spg.WLRecipe
	}
	var wpool []wr
	for li, l := range []*spg.WordList{wl, wl2} {
		ws := [][]string{words, words2}[li]
		for _, L := range []int{2, 3} {
			for _, cp := range []string{"none", "random", "one"} {
				for _, sp := range []Sep{{Kind: "none"}, {Kind: "char", Char: "-"}, {Kind: "SFDigits1"}, {Kind: "SFDigits2"}, {Kind: "SFSymbols"}, {Kind: "SFDigitsNoAmbiguous1"},
					{Kind: "sf", Recipe: &ref.CharRecipe{Length: 1, AllowChars: "xy"}}, {Kind: "sf", Recipe: &ref.CharRecipe{Length: 1, AllowChars: "xyz"}},
					{Kind: "sf", Recipe: &ref.CharRecipe{Length: 1, AllowChars: "ab", RequireSets: []string{"1", "2"}}}} {
					if sp.Recipe != nil && len(sp.Recipe.RequireSets) > 0 && (L == 3 || cp == "one") {
						continue // the refused separator recipe: a few recipes suffice
					}
					w := WLCase{Words: ws, Length: L, Cap: cp, Sep: sp}
					r := spg.NewWLRecipe(L, l)
					r.Capitalize = spg.CapScheme(cp)
					switch sp.Kind {
					case "none":
					case "char":
						r.SeparatorChar = sp.Char
					case "sf":
						r.SeparatorFunc = spg.NewSFFunction(toSpg(*sp.Recipe))
					default:
						r.SeparatorFunc = presetFuncs[sp.Kind]
					}
					wpool = append(wpool, wr{w, r})
				}
			}
		}
	}
	t0, r0 := spg.MaxTrials, spg.MaxFailRate
	use := func(x wr) (msg string) {
		defer func() {
			if msg == "" && (spg.MaxTrials != t0 || spg.MaxFailRate != r0) {
				msg = fmt.Sprintf("the package variables changed: MaxTrials %d -> %d, MaxFailRate %g -> %g", t0, spg.MaxTrials, r0, spg.MaxFailRate)
				spg.MaxTrials, spg.MaxFailRate = t0, r0
			}
		}()
		install(policyTape(c15Tapes[0]))
		e := float64(x.r.Entropy())
		if want := x.w.entropyModel(); math.IsNaN(e) || math.Abs(e-want) > 4*ref.Ulp32(want) {
			return fmt.Sprintf("Entropy() = %v, want %v", e, want)
		}
		install(policyTape(c15Tapes[1]))
		out := runGen(x.r.Generate)
		if !out.HasPw {
			return "Generate failed: " + out.Err + out.Panic
		}
		if msg := c05Leaf(x.w, out); msg != "" {
			return "Generate: " + msg
		}
		if math.Float32bits(out.Entropy) != math.Float32bits(float32(e)) {
			return fmt.Sprintf("Password.Entropy %v differs from Entropy() %v", out.Entropy, e)
		}
		return ""
	}
	for i, a := range wpool {
		for j, b := range wpool {
			if i == j || !c.Mine() {
				continue
			}
			msgA := use(a)
			c.Count("executions", 4)
			c.Count("pairs_checked", 1)
			if strings.HasPrefix(msgA, "the package variables changed") {
				c.Violation("pair wordlist", fmt.Sprintf("using recipe %s: %s", mustJSON(a.w), msgA), map[string]interface{}{"first_wl": a.w, "second_wl": a.w})
				return
			}
			if msg := use(b); msg != "" {
				c.Violation("pair wordlist", fmt.Sprintf("after using recipe %s, recipe %s (same word list object: %v) answers wrongly: %s", mustJSON(a.w), mustJSON(b.w), a.r.Size() == b.r.Size(), msg),
					map[string]interface{}{"first_wl": a.w, "second_wl": b.w})
				return
			}
		}
	}
}

func c15Run(c *core.Ctx) {
	c15Pairs(c)
	ops := c15Ops()
	depth := 4
	if c.Thorough() {
		depth = 5
	}
	if verifrtMissing() {
		c.Incomplete("worker not built from the instrumented copy: word order of fresh lists is not canonical")
		return
	}
	var seq []int
	var rec func()
	rec = func() {
		if len(seq) > 0 {
			// only sequences ending in a query decide anything new
			if ops[seq[len(seq)-1]].Query != nil && c.Mine() {
				if !c15Seq(c, ops, seq) {
					return
				}
				c.Count("sequences", 1)
			}
		}
		if len(seq) == depth || c.Expired() {
			return
		}
		for k := range ops {
			seq = append(seq, k)
			rec()
			seq = seq[:len(seq)-1]
		}
	}
	rec()
	if c.Expired() {
		c.Incomplete("deadline")
	}
	if c.Shard == 0 {
		c.Sample(map[string]interface{}{"sequence": []string{ops[0].Name, ops[12].Name, ops[1].Name}})
		c.Sample(map[string]interface{}{"sequence": []string{ops[16].Name, ops[5].Name, ops[7].Name}})
	}
}

func init() {
	Register(&core.Check{
		ID:    "C15",
		Level: "model_checking",
		Build: "inst",
		Rule: "every sequence of length <=4 (thorough <=5) over 23 operations - 13 queries (three of them on a random source that fails mid-call, the panic recovered by the caller) (Generate/Entropy/Alphabet/SuccessProbability on a character recipe, Generate/Entropy on a wordlist recipe, the preset SFDigits1 and a constructed separator function, each with a fixed scripted random stream) and 9 caller-side updates (lengths, class flags, exclude string, in-place edit of the RequireSets slice, nil/slice, capitalisation, separator function and character) - run on live values; after every query: caller-visible state deep-equal to the snapshot before it, result and bytes consumed equal to the same call on freshly built values with the same public fields, and consistent with the reference model evaluated on the current fields; " +
			"part B: all ordered pairs of ~70 character recipes and 96 wordlist recipes that differ only in how the same characters are split over fields/strings or that share a word list object (queries on A, then B checked against the model); states = sequences; non-trivial = distinct (query, result) pairs",
		Assume:    []string{"map ranges take the canonical order in the instrumented build, so a freshly built word list has the same word order", "no state deduplication: closures hide state that cannot be hashed soundly"},
		Run:       c15Run,
		StatesKey: "sequences", TransKey: "executions",
	})
	Replayers["C15"] = func(raw json.RawMessage) (string, bool) {
		var rp struct {
			Sequence []string `json:"sequence"`
		}
		json.Unmarshal(raw, &rp)
		ops := c15Ops()
		var seq []int
		for _, n := range rp.Sequence {
			for k, o := range ops {
				if o.Name == n {
					seq = append(seq, k)
				}
			}
		}
		c := &core.Ctx{ID: "C15", Tier: "quick", NShards: 1}
		// check every prefix ending in a query
		for i := 1; i <= len(seq); i++ {
			c15Seq(c, ops, seq[:i])
		}
		return fmt.Sprintf("sequence %s: %d violation(s) %v", strings.Join(rp.Sequence, " ; "), c.R.NViol, c.R.Violations), c.R.NViol > 0
	}
}
