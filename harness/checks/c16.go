package checks

import (
	"bufio"
	"fmt"
	"math"
	"math/big"
	"os"
	"regexp"
	"sort"
	"strings"

	"go.1password.io/spg"
	"verif/harness/core"
	"verif/harness/ref"
	"verif/harness/tape"
)

// ---------- C16: documented constants, defaults, presets, shipped lists ----------

// documented values, transcribed from the documentation (not imported from spg)
var docClasses = map[string]string{
	"Uppers":    "ABCDEFGHIJKLMNOPQRSTUVWXYZ",
	"Lowers":    "abcdefghijklmnopqrstuvwxyz",
	"Digits":    "0123456789",
	"Symbols":   "!@.-_*",
	"Ambiguous": "0O1Il5S",
}

var docPresets = map[string][]string{
	"SFNone":               {""},
	"SFDigits1":            strings.Split("0123456789", ""),
	"SFDigitsNoAmbiguous1": strings.Split("2346789", ""),
	"SFSymbols":            strings.Split("!@.-_*", ""),
	"SFDigitsSymbols":      strings.Split("0123456789!@.-_*", ""),
}

func sortChars(s string) string {
	c := strings.Split(s, "")
	sort.Strings(c)
	return strings.Join(c, "")
}

func repoDir() string {
	if d := os.Getenv("VERIF_REPO"); d != "" {
		return d
	}
	return "/repo"
}

func readLines(path string) ([]string, error) {
	f, err := os.Open(path)
	if err != nil {
		return nil, err
	}
	defer f.Close()
	var out []string
	sc := bufio.NewScanner(f)
	for sc.Scan() {
		out = append(out, sc.Text())
	}
	return out, sc.Err()
}

// c16Pollute uses the library the way an application would between two looks
// at the documented constants: recipes that combine class flags with custom
// strings, exclusions of every kind, separator functions, word lists.
func c16Pollute() {
	rs := []spg.CharRecipe{
		{Length: 6, Allow: spg.All, Exclude: spg.Ambiguous, ExcludeChars: "@*89"},
		{Length: 4, Allow: spg.Digits | spg.Symbols, Exclude: spg.Ambiguous | spg.Digits},
		{Length: 5, Allow: spg.Letters, Require: spg.Digits | spg.Ambiguous, ExcludeChars: "0O"},
		{Length: 3, AllowChars: "abc!", RequireSets: []string{"a!", "0"}, Exclude: spg.Symbols},
		{Length: 8, Allow: spg.All, Require: spg.All, Exclude: spg.Ambiguous, ExcludeChars: "aeiou"},
	}
	for _, r := range rs {
		func() {
			defer func() { recover() }()
			install(policyTape(func(b uint32, i int) uint32 { return uint32(i * 3) }))
			r.Generate()
			_ = r.Entropy()
			_ = r.Alphabet()
			_ = r.SuccessProbability()
			p := spg.NewCharRecipe(9)
			p.ExcludeChars = "xyz27"
			p.Exclude |= spg.Symbols
			p.Generate()
			sf := spg.NewSFFunction(r)
			sf()
		}()
	}
	func() {
		defer func() { recover() }()
		wl, _ := spg.NewWordList([]string{"ab", "Ab", "cd", "4"})
		w := spg.NewWLRecipe(3, wl)
		w.Capitalize, w.SeparatorFunc = spg.CSRandom, spg.SFDigitsNoAmbiguous2
		install(policyTape(func(b uint32, i int) uint32 { return uint32(i + 1) }))
		w.Generate()
		_ = w.Entropy()
	}()
	install(tape.New(&tape.Script{}))
}

var c16Tuned bool

func c16Run(c *core.Ctx) {
	c16Pass(c, "")
	c16Pollute()
	c16Pass(c, " (after other recipes were used)")
	if c.Shard == 0 {
		c16Budget(c)
	}
	// the presets and defaults have no requirements, so no setting of the
	// retry budget may change them
	for _, tune := range []struct {
		t int
		r float64
	}{{200, 0}, {1, 1e-9}, {1000, 1}} {
		oldT, oldR := spg.MaxTrials, spg.MaxFailRate
		spg.MaxTrials, spg.MaxFailRate = tune.t, tune.r
		c16Tuned = true
		c16Pass(c, fmt.Sprintf(" (with MaxTrials=%d MaxFailRate=%g)", tune.t, tune.r))
		c16Tuned = false
		spg.MaxTrials, spg.MaxFailRate = oldT, oldR
	}
}

// c16Budget: the documented default retry budget, observed: on a stream where
// every attempt misses the requirement Generate gives up after exactly 200
// attempts; when only the first attempt misses, the second one is used.
func c16Budget(c *core.Ctx) {
	for _, L := range []int{1, 2, 3, 50, 198, 199, 200, 250, 1000} {
		r := spg.CharRecipe{Length: L, AllowChars: "ab", RequireSets: []string{"b"}}
		rp := map[string]interface{}{"item": "retry budget", "length": L}
		if L <= 3 {
			// (longer recipes almost surely succeed, so giving up on them
			// needs no particular number of attempts: only an upper bound)
			t := policyTape(func(bound uint32, i int) uint32 { return 0 })
			install(t)
			out := runGen(r.Generate)
			c.Count("executions", 1)
			c.Count("items_checked", 1)
			switch {
			case out.Aborted:
				c.Violation(fmt.Sprintf("retry budget L=%d", L), "on a stream where every attempt misses the requirement Generate never gives up (documented: 200 attempts)", rp)
			case out.HasPw || out.Panic != "" || out.Err == "":
				c.Violation(fmt.Sprintf("retry budget L=%d", L), fmt.Sprintf("every attempt misses the requirement, result %q err %q panic %q", out.Str, out.Err, out.Panic), rp)
			case t.Words != 200*L:
				c.Violation(fmt.Sprintf("retry budget L=%d", L), fmt.Sprintf("Generate gave up after drawing %d characters = %.2f attempts; the documented default is 200 attempts", t.Words, float64(t.Words)/float64(L)), rp)
			}
		}
		// first attempt all 'a' (misses), afterwards all 'b'
		t := policyTape(func(bound uint32, i int) uint32 {
			if i < L {
				return 0
			}
			return 1
		})
		install(t)
		out := runGen(r.Generate)
		c.Count("executions", 1)
		c.Count("items_checked", 1)
		if !out.HasPw || out.Str != strings.Repeat("b", L) {
			c.Violation(fmt.Sprintf("retry second attempt L=%d", L), fmt.Sprintf("the first attempt misses the requirement and the second satisfies it, but Generate returned %q err %q panic %q aborted=%v after %d draws", trunc(out.Str), out.Err, out.Panic, out.Aborted, t.Words), rp)
		}
	}
	install(tape.New(&tape.Script{}))
}

func c16Pass(c *core.Ctx, when string) {
	install(tape.New(&tape.Script{}))
	fail := func(key, msg string) {
		c.Violation(key+when, msg+when, map[string]interface{}{"item": key})
	}
	item := func() { c.Count("executions", 1); c.Count("items_checked", 1) }
	if c.Shard == 0 {
		// classes
		flags := map[string]spg.CTFlag{"Uppers": spg.Uppers, "Lowers": spg.Lowers, "Digits": spg.Digits, "Symbols": spg.Symbols, "Ambiguous": spg.Ambiguous}
		for name, f := range flags {
			item()
			got := spg.CharRecipe{Length: 1, Allow: f}.Alphabet()
			if got != sortChars(docClasses[name]) {
				fail("class "+name, fmt.Sprintf("class %s is %q, documented %q", name, got, sortChars(docClasses[name])))
			}
			c.Outcome("class " + name + "=" + got)
		}
		item()
		if got, want := (spg.CharRecipe{Length: 1, Allow: spg.Letters}).Alphabet(), sortChars(docClasses["Uppers"]+docClasses["Lowers"]); got != want {
			fail("class Letters", fmt.Sprintf("Letters is %q, documented %q", got, want))
		}
		item()
		if got, want := (spg.CharRecipe{Length: 1, Allow: spg.All}).Alphabet(), sortChars(docClasses["Uppers"]+docClasses["Lowers"]+docClasses["Digits"]+docClasses["Symbols"]); got != want {
			fail("class All", fmt.Sprintf("All is %q, documented %q", got, want))
		}
		// every class (and named combination) allowed minus every class excluded
		named := map[string]spg.CTFlag{"Uppers": spg.Uppers, "Lowers": spg.Lowers, "Digits": spg.Digits, "Symbols": spg.Symbols, "Ambiguous": spg.Ambiguous, "Letters": spg.Letters, "All": spg.All}
		members := map[string]string{"Letters": docClasses["Uppers"] + docClasses["Lowers"], "All": docClasses["Uppers"] + docClasses["Lowers"] + docClasses["Digits"] + docClasses["Symbols"]}
		for k, v := range docClasses {
			members[k] = v
		}
		for an, af := range named {
			for en, ef := range named {
				item()
				want := ""
				for _, ch := range strings.Split(sortChars(members[an]), "") {
					if !strings.Contains(members[en], ch) && !strings.HasSuffix(want, ch) {
						want += ch
					}
				}
				got := spg.CharRecipe{Length: 1, Allow: af, Exclude: ef}.Alphabet()
				if got != want {
					fail("class "+an+" minus "+en, fmt.Sprintf("Allow %s, Exclude %s: alphabet %q, documented classes give %q", an, en, got, want))
				}
			}
		}
		item()
		if spg.Letters != spg.Uppers|spg.Lowers || spg.All != spg.Letters|spg.Digits|spg.Symbols || spg.None != 0 {
			fail("named combinations", "Letters/All/None are not the documented unions")
		}
		item()
		// the five flags are distinct single bits
		seen := spg.CTFlag(0)
		for name, f := range flags {
			if f == 0 || f&(f-1) != 0 || seen&f != 0 {
				fail("flag "+name, fmt.Sprintf("flag %s = %d is not a distinct single bit", name, f))
			}
			seen |= f
		}
		// constructor defaults
		for _, n := range []int{0, 1, 7, 20, -3} {
			item()
			r := spg.NewCharRecipe(n)
			if r == nil || r.Length != n || r.Allow != spg.Letters|spg.Digits|spg.Symbols || r.Exclude != spg.Ambiguous || r.Require != 0 || r.AllowChars != "" || r.ExcludeChars != "" || len(r.RequireSets) != 0 {
				fail("NewCharRecipe defaults", fmt.Sprintf("NewCharRecipe(%d) = %+v", n, r))
				continue
			}
			all := docClasses["Uppers"] + docClasses["Lowers"] + docClasses["Digits"] + docClasses["Symbols"]
			want := ""
			for _, ch := range strings.Split(sortChars(all), "") {
				if !strings.Contains(docClasses["Ambiguous"], ch) {
					want += ch
				}
			}
			if got := r.Alphabet(); got != want {
				fail("NewCharRecipe alphabet", fmt.Sprintf("default alphabet %q, documented %q", got, want))
			}
		}
		// defaults must survive a caller tinkering with an earlier result
		{
			item()
			r1 := spg.NewCharRecipe(5)
			r1.Allow, r1.Exclude, r1.Require = spg.Digits, 0, spg.Symbols
			r1.AllowChars, r1.ExcludeChars, r1.RequireSets = "xyz", "9", []string{"x"}
			r2 := spg.NewCharRecipe(7)
			if r1 == r2 || r1.Length != 5 || r2.Length != 7 || r2.Allow != spg.Letters|spg.Digits|spg.Symbols || r2.Exclude != spg.Ambiguous || r2.Require != 0 || r2.AllowChars != "" || r2.ExcludeChars != "" || len(r2.RequireSets) != 0 {
				fail("NewCharRecipe after modification", fmt.Sprintf("after an earlier result was modified, NewCharRecipe(7) = %+v (earlier: %+v, same pointer: %v)", *r2, *r1, r1 == r2))
			}
			wl0, _ := spg.NewWordList([]string{"ab", "cd"})
			w1 := spg.NewWLRecipe(3, wl0)
			w1.Capitalize, w1.SeparatorChar, w1.SeparatorFunc = spg.CSAll, "-", spg.SFDigits1
			w2 := spg.NewWLRecipe(2, wl0)
			if w1 == w2 || w1.Length != 3 || w2.Length != 2 || w2.Capitalize != spg.CSNone || w2.SeparatorChar != "" || w2.SeparatorFunc != nil {
				fail("NewWLRecipe after modification", fmt.Sprintf("after an earlier result was modified, NewWLRecipe(2) = %+v", *w2))
			}
		}
		wl, _ := spg.NewWordList([]string{"ab", "cd"})
		for _, n := range []int{0, 1, 4} {
			item()
			r := spg.NewWLRecipe(n, wl)
			if r == nil || r.Length != n || r.Capitalize != spg.CSNone || r.SeparatorChar != "" || r.SeparatorFunc != nil {
				fail("NewWLRecipe defaults", fmt.Sprintf("NewWLRecipe(%d) = %+v", n, r))
			}
		}
		item()
		if spg.CSNone != "none" || spg.CSFirst != "first" || spg.CSAll != "all" || spg.CSRandom != "random" || spg.CSOne != "one" {
			fail("CapScheme names", "capitalisation scheme constants differ from the documented strings")
		}
		item()
		if !c16Tuned && (spg.MaxTrials != 200 || spg.MaxFailRate != 1e-9) {
			fail("retry budget", fmt.Sprintf("MaxTrials=%d MaxFailRate=%g, documented 200 and 1e-9", spg.MaxTrials, spg.MaxFailRate))
		}
		item()
		if spg.SeparatorType != 0 || spg.AtomType != 1 || spg.CharacterIndexKind != 0 || spg.VarAtomsIndexKind != 1 || spg.AlternatingIndexKind != 2 || spg.FullIndexKind != 3 {
			fail("token constants", "token type / index kind constants differ from the documented values")
		}
	}
	// presets: complete cell of each preset's draws
	two := func(one []string) []string {
		var out []string
		for _, a := range one {
			for _, b := range one {
				out = append(out, a+b)
			}
		}
		return out
	}
	presets := map[string][]string{}
	for k, v := range docPresets {
		presets[k] = v
	}
	presets["SFDigits2"] = two(docPresets["SFDigits1"])
	presets["SFDigitsNoAmbiguous2"] = two(docPresets["SFDigitsNoAmbiguous1"])
	names := make([]string, 0, len(presets))
	for k := range presets {
		names = append(names, k)
	}
	sort.Strings(names)
	type job struct{ before, name string }
	var jobs []job
	for _, name := range names {
		jobs = append(jobs, job{"", name})
	}
	for _, a := range names {
		for _, b := range names {
			if a != b {
				jobs = append(jobs, job{a, b}) // preset b used after preset a in the same process
			}
		}
	}
	for _, jb := range jobs {
		if !c.Mine() {
			continue
		}
		name := jb.name
		if jb.before != "" {
			// use the other preset first (its complete cell), then judge this one
			fa := presetFuncs[jb.before]
			exploreCell(func() (*spg.Password, error) { fa(); return nil, fmt.Errorf("x") }, CellOpt{DepthCut: 8, Fallback: 2, MaxMenu: 4096, MaxLeaves: 100000, Dev: -1}, func(l *Leaf) {})
		}
		want := presets[name]
		f := presetFuncs[name]
		mass := map[string]*big.Rat{}
		ents := map[uint32]bool{}
		var lastEnt float32
		g := func() (*spg.Password, error) {
			s, e := f()
			ents[math.Float32bits(float32(e))] = true
			lastEnt = float32(e)
			k := s
			_ = k
			return nil, fmt.Errorf("%s", "sep:"+s)
		}
		st := exploreCell(g, CellOpt{DepthCut: 8, Fallback: 2, MaxMenu: 4096, MaxLeaves: 100000, Dev: -1}, func(l *Leaf) {
			s := strings.TrimPrefix(l.Out.Err, "sep:")
			if mass[s] == nil {
				mass[s] = new(big.Rat)
			}
			mass[s].Add(mass[s], l.Mass)
		})
		c.Count("executions", st.Leaves)
		c.Count("nodes", st.Nodes)
		c.Count("edges", st.Edges)
		c.Count("items_checked", 1)
		key := "preset " + name
		if jb.before != "" {
			key = "preset " + name + " after " + jb.before
		}
		wantSet := map[string]bool{}
		for _, w := range want {
			wantSet[w] = true
		}
		okSet := len(mass) == len(wantSet)
		for s := range mass {
			if !wantSet[s] {
				okSet = false
			}
		}
		if !okSet {
			var got []string
			for s := range mass {
				got = append(got, s)
			}
			sort.Strings(got)
			fail(key+" values", fmt.Sprintf("%s can return %q, documented %q", name, got, want))
			continue
		}
		each := big.NewRat(1, int64(len(want)))
		for s, m := range mass {
			if m.Cmp(each) != 0 {
				fail(key+" uniform", fmt.Sprintf("%s returns %q with probability %s, not %s", name, s, m.RatString(), each.RatString()))
				break
			}
			c.Outcome(name + ":" + s)
		}
		wantEnt := math.Log2(float64(len(want)))
		if len(ents) != 1 || math.Abs(float64(lastEnt)-wantEnt) > ref.Ulp32(wantEnt) {
			fail(key+" entropy", fmt.Sprintf("%s reports entropy %v, documented log2(%d) = %v", name, lastEnt, len(want), wantEnt))
		}
		c.Sample(map[string]interface{}{"preset": name, "values": len(want), "leaves": st.Leaves, "entropy": lastEnt})
	}
	// shipped lists vs their data files
	lists := []struct {
		name, file string
		list       []string
	}{
		{"AgileWords", "testdata/agwordlist.txt", spg.AgileWords},
		{"AgileSyllables", "testdata/agsyllables.txt", spg.AgileSyllables},
	}
	lower := regexp.MustCompile(`^[a-z]+$`)
	for _, l := range lists {
		if !c.Mine() {
			continue
		}
		lines, err := readLines(repoDir() + "/" + l.file)
		if err != nil {
			c.Incomplete("cannot read %s: %v", l.file, err)
			continue
		}
		key := "list " + l.name
		if len(lines) != len(l.list) {
			fail(key+" length", fmt.Sprintf("%s has %d entries, %s has %d lines", l.name, len(l.list), l.file, len(lines)))
			continue
		}
		seen := map[string]bool{}
		bad := false
		for i, w := range l.list {
			c.Count("executions", 1)
			switch {
			case w != lines[i]:
				fail(key+" entry", fmt.Sprintf("%s[%d] = %q, line %d of %s is %q", l.name, i, w, i+1, l.file, lines[i]))
				bad = true
			case !lower.MatchString(w):
				fail(key+" lower-case", fmt.Sprintf("%s[%d] = %q is not lower-case letters", l.name, i, w))
				bad = true
			case seen[w]:
				fail(key+" duplicate", fmt.Sprintf("%s contains %q twice", l.name, w))
				bad = true
			}
			seen[w] = true
			if bad {
				break
			}
		}
		c.Count("list_entries_compared", int64(len(l.list)))
		if bad {
			continue
		}
		wl, err := spg.NewWordList(l.list)
		if err != nil || int(wl.Size()) != len(l.list) {
			fail(key+" size", fmt.Sprintf("NewWordList(%s) keeps %v of %d entries (err %v)", l.name, wl.Size(), len(l.list), err))
		}
		c.Count("items_checked", 1)
		c.Outcome(fmt.Sprintf("%s size %d", l.name, len(l.list)))
	}
}

func init() {
	Register(&core.Check{
		ID:    "C16",
		Level: "exploration",
		Rule: "the finite configuration space is enumerated completely: each class flag and named combination (Alphabet() of the recipe allowing exactly it), constructor defaults for several lengths, scheme/token/budget constants, the complete cell of draws of each of the 7 separator presets (every value, exact probability, entropy) - alone and after each other preset has been used in the same process (42 ordered pairs) -, constructors called again after an earlier result was modified, and every entry of both shipped lists against its data file; documented values are transcribed into the checker; the whole pass is repeated after a battery of other recipes has been used in the same process; " +
			"non-trivial = distinct (item, observed value) pairs",
		Assume:    []string{"the data files under /repo/testdata are the reference for the shipped lists"},
		Run:       c16Run,
		StatesKey: "nodes", TransKey: "edges",
	})
}
