package checks

import (
	"bytes"
	"encoding/binary"
	"encoding/hex"
	"encoding/json"
	"fmt"
	"io"
	"math"
	"os"
	"os/exec"
	"path/filepath"
	"sort"
	"strconv"
	"strings"
	"syscall"

	"go.1password.io/spg"
	"verif/harness/core"
	"verif/harness/ref"
)

// ---------- C17: opgen is faithful to the library recipe its flags describe ----------

var cliClassNames = map[string]uint32{"uppercase": ref.Uppers, "lowercase": ref.Lowers, "digits": ref.Digits, "symbols": ref.Symbols, "ambiguous": ref.Ambiguous}

// parseClasses is the documented meaning of a --allow/--require/--exclude value.
func parseClasses(v string) uint32 {
	var f uint32
	for _, p := range strings.Split(strings.Replace(v, " ", "", -1), ",") {
		f |= cliClassNames[p]
	}
	return f
}

type cliResult struct {
	Stdout, Stderr string
	Status         int
}

// opgenStdin, when not nil, is what the next runOpgen call feeds to the
// child's standard input through a pipe (for --file=/dev/stdin).
var opgenStdin []byte

func runOpgen(args []string, tapeHex string) cliResult {
	cmd := exec.Command(os.Getenv("VERIF_OPGEN"), args...)
	cmd.Env = append(os.Environ(), "VERIF_TAPE="+tapeHex)
	var so, se bytes.Buffer
	cmd.Stdout, cmd.Stderr = &so, &se
	if opgenStdin != nil {
		// an io.Reader that is not an *os.File makes os/exec use a pipe
		cmd.Stdin = io.MultiReader(bytes.NewReader(opgenStdin))
		opgenStdin = nil
	}
	err := cmd.Run()
	st := 0
	if err != nil {
		if ee, ok := err.(*exec.ExitError); ok {
			st = ee.ExitCode()
		} else {
			st = -1
		}
	}
	return cliResult{so.String(), se.String(), st}
}

func tapeHexOf(words []uint32) string {
	b := make([]byte, 4*len(words))
	for i, w := range words {
		binary.BigEndian.PutUint32(b[4*i:], w)
	}
	return hex.EncodeToString(b)
}

var cliPolicies = []func(b uint32, i int) uint32{
	func(b uint32, i int) uint32 { return uint32(i*7 + 3) },
	func(b uint32, i int) uint32 { return (b*64 - 1 - uint32(i)*3) % b },
	func(b uint32, i int) uint32 { return 0 },
}

// wordsFor records the words the library draws for gen under policy p, then
// pads the tape so that a few extra draws do not exhaust it.
func wordsFor(gen func() (*spg.Password, error), p int) ([]uint32, GenOut) {
	t := policyTape(cliPolicies[p])
	t.LogOn = true
	t.LogOn = true
	install(t)
	out := runGen(gen)
	t.EndCall()
	var ws []uint32
	for _, d := range t.Log {
		ws = append(ws, d.Word)
	}
	for i := 0; i < 40; i++ {
		ws = append(ws, uint32(i*2654435761))
	}
	return ws, out
}

func oneLine(s string) (string, bool) {
	if !strings.HasSuffix(s, "\n") {
		return "", false
	}
	body := s[:len(s)-1]
	if strings.Contains(body, "\n") {
		return "", false
	}
	return body, true
}

// ---- characters ----

func c17Chars(c *core.Ctx, length string, allow, require, exclude string, entropy bool, npol int) {
	args := []string{"characters"}
	L := 20
	if length != "" {
		args = append(args, "--length="+length)
		L, _ = strconv.Atoi(length)
	}
	r := ref.CharRecipe{Length: L, Allow: ref.All, Exclude: ref.Ambiguous}
	if allow != "" {
		args = append(args, "--allow="+allow)
		r.Allow = parseClasses(allow)
	}
	if require != "" {
		args = append(args, "--require="+require)
		r.Require = parseClasses(require)
	}
	if exclude != "" {
		args = append(args, "--exclude="+exclude)
		r.Exclude = parseClasses(exclude)
	}
	if entropy {
		args = append(args, "--entropy")
	}
	key := "opgen " + strings.Join(args, " ")
	sr := toSpg(r)
	// can the library honour the recipe?
	ab := r.Alphabet()
	count := r.Count()
	honour := "either"
	if L < 1 || len(ab) == 0 || count.Sign() == 0 {
		honour = "no"
		if r.EmptiedReq() && L >= 1 && len(ab) > 0 {
			honour = "either"
		}
	} else if !r.EmptiedReq() {
		// success probability p; refused iff (1-p)^200 > 1e-9
		p := new(float64)
		num, _ := new(bigFloat).SetInt(count).Float64()
		den := math.Pow(float64(len(ab)), float64(L))
		*p = num / den
		f := math.Pow(1-*p, 200)
		switch {
		case f < 1e-9*0.9:
			honour = "yes"
		case f > 1e-9*1.1:
			honour = "no"
		}
	}
	for pi := 0; pi < npol; pi++ {
		ws, lib := wordsFor(sr.Generate, pi)
		res := runOpgen(args, tapeHexOf(ws))
		c.Count("executions", 1)
		c.Count("cli_runs", 1)
		rp := map[string]interface{}{"args": args, "tape": tapeHexOf(ws)}
		line, single := oneLine(res.Stdout)
		if entropy {
			if honour != "yes" {
				c.Count("entropy_of_unhonourable_recipes_skipped", 1)
				return
			}
			want := ref.Log2Big(count)
			v, err := strconv.ParseFloat(line, 64)
			if res.Status != 0 || !single || err != nil || math.Abs(v-want) > 0.0051+ref.Ulp32(want) {
				c.Violation(key+" entropy", fmt.Sprintf("status %d, stdout %q; the recipe's entropy is %.2f", res.Status, res.Stdout, want), rp)
			}
			c.Outcome("entropy " + line)
			return // the tape is irrelevant
		}
		abSet := map[string]bool{}
		for _, ch := range ab {
			abSet[ch] = true
		}
		isPw := func(s string) bool {
			chars := ref.Chars(s)
			return len(chars) == L && L > 0 && r.Valid(chars)
		}
		if honour == "yes" && !lib.HasPw && lib.Panic == "" {
			// on this particular (scripted, periodic) stream every permitted
			// attempt misses a requirement: the library reports an error and
			// so must opgen
			c.Count("tapes_on_which_all_attempts_fail", 1)
			if res.Status != 1 || isPw(strings.TrimSpace(res.Stdout)) {
				c.Violation(key+" exhausted", fmt.Sprintf("the library fails on this stream (%s) but opgen exited %d with stdout %q", lib.Err, res.Status, truncText(res.Stdout)), rp)
			}
			continue
		}
		switch honour {
		case "yes":
			if res.Status != 0 || !single {
				c.Violation(key+" status", fmt.Sprintf("status %d, stdout %q, stderr %q; expected exactly one password line and status 0", res.Status, res.Stdout, truncText(res.Stderr)), rp)
				return
			}
			if lib.HasPw && line == lib.Str {
				c.Count("equal_to_library_on_same_tape", 1)
			} else if !isPw(line) {
				c.Violation(key+" password", fmt.Sprintf("printed %q, which the equivalent library recipe %v cannot generate (library on the same tape: %q)", line, recipeLit(r), lib.Str), rp)
				return
			} else {
				c.Count("valid_but_different_from_library", 1)
			}
			c.Outcome(line)
		case "no":
			if res.Status != 1 {
				c.Violation(key+" status", fmt.Sprintf("status %d, expected 1 for a recipe the library refuses (stdout %q)", res.Status, truncText(res.Stdout)), rp)
				return
			}
			for _, l := range strings.Split(res.Stdout, "\n") {
				if isPw(l) || l != "" && lib.HasPw && l == lib.Str {
					c.Violation(key+" printed", fmt.Sprintf("refused recipe but stdout has the password-like line %q", l), rp)
					return
				}
			}
			c.Outcome("refused")
		default:
			if res.Status == 0 && !(single && isPw(line)) || res.Status != 0 && res.Status != 1 {
				c.Violation(key+" either", fmt.Sprintf("status %d stdout %q", res.Status, truncText(res.Stdout)), rp)
			}
		}
	}
}

type bigFloat = bigF

// ---- words ----

type wordsCase struct {
	List, File, Size, Sep, Cap string
	Entropy                    bool
}

var cliSeps = map[string][]string{"hyphen": {"-"}, "space": {" "}, "comma": {","}, "period": {"."}, "underscore": {"_"},
	"digit": {"0", "1", "2", "3", "4", "5", "6", "7", "8", "9"}, "none": {""}}

var listCache = map[string][]string{}

func cliFiles() map[string][]string {
	return map[string][]string{"three.txt": {"alpha", "bravo", "charlie"}, "dups.txt": {"alpha", "bravo", "alpha", "charlie", "bravo"},
		"twin.txt": {"polish", "Polish", "alpha"}, "empty.txt": {}, "one.txt": {"solo"}, "onedup.txt": {"solo", "solo", "solo"},
		"percent.txt": {"a%sb", "q%%r", "100%", "%d"}, "longline.txt": longLineWords(),
		"longword.txt": {"alpha", "bravo", strings.Repeat("x", 70000), "charlie", "delta", "echo", "foxtrot", "golf"}}
}

// longLineWords: 12000 distinct words; the file puts them all on ONE line (> 64 KiB)
func longLineWords() []string {
	out := make([]string, 12000)
	for i := range out {
		out[i] = fmt.Sprintf("w%05dx", i)
	}
	return out
}

// couldGenerate reports whether s can be split into n atoms (words of kept or
// their title forms, following the scheme) joined by separators from seps.
func couldGenerate(s string, kept []string, n int, scheme string, seps []string) bool {
	if n < 1 {
		return false
	}
	lower := map[string]bool{}
	title := map[string]bool{}
	lenSet := map[int]bool{}
	for _, w := range kept {
		lower[w] = true
		title[ref.Title(w)] = true
		lenSet[len(w)] = true
		lenSet[len(ref.Title(w))] = true
	}
	var lens []int
	for l := range lenSet {
		lens = append(lens, l)
	}
	sort.Ints(lens)
	type st struct{ pos, k, mask int }
	seen := map[st]bool{}
	var ok func(pos, k, mask int) bool
	accept := func(mask int) bool {
		switch scheme {
		case "none", "":
			return mask == 0
		case "first":
			return mask == 1
		case "all":
			return mask == 1<<uint(n)-1
		case "one":
			return mask != 0 && mask&(mask-1) == 0
		case "random":
			return true
		}
		return false
	}
	ok = func(pos, k, mask int) bool {
		if k == n {
			return pos == len(s) && accept(mask)
		}
		key := st{pos, k, mask}
		if seen[key] {
			return false
		}
		seen[key] = true
		starts := []int{pos}
		if k > 0 {
			starts = starts[:0]
			for _, sp := range seps {
				if strings.HasPrefix(s[pos:], sp) {
					starts = append(starts, pos+len(sp))
				}
			}
		}
		for _, p0 := range starts {
			for _, l := range lens {
				if l < 1 || p0+l > len(s) {
					continue
				}
				sub := s[p0 : p0+l]
				if lower[sub] && ok(p0+l, k+1, mask) {
					return true
				}
				if title[sub] && ok(p0+l, k+1, mask|1<<uint(k)) {
					return true
				}
			}
		}
		return false
	}
	return ok(0, 0, 0)
}

func c17Words(c *core.Ctx, w wordsCase, dir string) {
	args := []string{"words"}
	var input []string
	status2 := false
	switch {
	case strings.HasPrefix(w.File, "stdin:"):
		// the same list arriving through a pipe on standard input
		base := strings.TrimPrefix(w.File, "stdin:")
		args = append(args, "--file=/dev/stdin")
		input = cliFiles()[base]
		b, _ := os.ReadFile(filepath.Join(dir, base))
		opgenStdin = append([]byte{}, b...)
	case strings.HasPrefix(w.File, "fifo:"):
		// ... and through a named pipe
		base := strings.TrimPrefix(w.File, "fifo:")
		input = cliFiles()[base]
		fifo := filepath.Join(dir, fmt.Sprintf("fifo-%d-%d", os.Getpid(), c.R.Counters["cli_runs"]))
		os.Remove(fifo)
		if err := syscall.Mkfifo(fifo, 0o600); err != nil {
			c.Count("fifo_unavailable", 1)
			return
		}
		defer os.Remove(fifo)
		b, _ := os.ReadFile(filepath.Join(dir, base))
		go func() {
			// (blocks until opgen opens the pipe; a reader that never opens
			// it leaves this goroutine parked, which is harmless)
			if f, err := os.OpenFile(fifo, os.O_WRONLY, 0); err == nil {
				f.Write(b)
				f.Close()
			}
		}()
		args = append(args, "--file="+fifo)
	case w.File != "":
		args = append(args, "--file="+filepath.Join(dir, w.File))
		input = cliFiles()[w.File]
	case w.List == "":
		input = spg.AgileWords
	case w.List == "words":
		args = append(args, "--list=words")
		input = spg.AgileWords
	case w.List == "syllables":
		args = append(args, "--list=syllables")
		input = spg.AgileSyllables
	default:
		args = append(args, "--list="+w.List)
		status2 = true
	}
	n := 4
	if w.Size != "" {
		args = append(args, "--size="+w.Size)
		n, _ = strconv.Atoi(w.Size)
	}
	sepName := "hyphen"
	if w.Sep != "" {
		args = append(args, "--separator="+w.Sep)
		sepName = w.Sep
	}
	scheme := "none"
	if w.Cap != "" {
		args = append(args, "--capitalize="+w.Cap)
		scheme = w.Cap
	}
	if w.Entropy {
		args = append(args, "--entropy")
	}
	key := "opgen " + strings.Join(args, " ")
	if w.File != "" {
		key = "opgen words --file=" + w.File + " " + strings.Join(args[2:], " ")
	}
	ws := make([]uint32, 48)
	for i := range ws {
		ws[i] = uint32(i*40503 + 7)
	}
	res := runOpgen(args, tapeHexOf(ws))
	c.Count("executions", 1)
	c.Count("cli_runs", 1)
	rp := map[string]interface{}{"args": args, "tape": tapeHexOf(ws), "file_words": input, "file_via": w.File}
	if status2 {
		if res.Status != 2 {
			c.Violation(key+" status", fmt.Sprintf("unknown list: status %d, expected 2", res.Status), rp)
		}
		c.Outcome("usage")
		return
	}
	kept, uncap := ref.Normalise(input)
	line, single := oneLine(res.Stdout)
	honour := len(kept) > 0 && n >= 1
	if !honour {
		if w.Entropy {
			return
		}
		if res.Status != 1 {
			c.Violation(key+" status", fmt.Sprintf("status %d, expected 1 for a recipe the library refuses (size %d, %d words); stdout %q", res.Status, n, len(kept), truncText(res.Stdout)), rp)
		} else if strings.TrimSpace(res.Stdout) != "" && couldGenerate(strings.TrimSpace(res.Stdout), kept, n, scheme, cliSeps[sepName]) {
			c.Violation(key+" printed", "refused recipe but a password was printed", rp)
		}
		c.Outcome("refused")
		return
	}
	if res.Status != 0 || !single {
		c.Violation(key+" status", fmt.Sprintf("status %d, stdout %q, stderr %q; expected exactly one line on stdout and status 0", res.Status, truncText(res.Stdout), truncText(res.Stderr)), rp)
		return
	}
	if w.Entropy {
		se := 0.0
		if sepName == "digit" {
			se = math.Log2(10)
		}
		want := ref.WLEntropy(len(kept), n, scheme, uncap, se)
		v, err := strconv.ParseFloat(line, 64)
		if err != nil || math.Abs(v-want) > 0.0051+4*ref.Ulp32(want) {
			c.Violation(key+" entropy", fmt.Sprintf("printed %q, the recipe's entropy is %.2f", line, want), rp)
		}
		c.Outcome("entropy " + line)
		return
	}
	if !couldGenerate(line, kept, n, scheme, cliSeps[sepName]) {
		c.Violation(key+" password", fmt.Sprintf("printed %q, which is not %d words of the list joined by %q with capitalisation %q", line, n, sepName, scheme), rp)
		return
	}
	c.Outcome(line)
}

func c17Run(c *core.Ctx) {
	dir := os.Getenv("VERIF_C17_DIR")
	if os.Getenv("VERIF_OPGEN") == "" || dir == "" {
		panic("C17 shard without VERIF_OPGEN")
	}
	classVals := []string{"", "uppercase", "lowercase", "digits", "symbols", "ambiguous", "uppercase,lowercase", "digits, symbols", "digits,ambiguous", "uppercase,lowercase,digits,symbols,ambiguous", "lowercase, uppercase, digits", " symbols , digits ", "digits,digits", "digits,lowercase,digits", "symbols,symbols,uppercase"}
	lengths := []string{"", "0", "1", "3", "20"}
	npol := 3
	if !c.Thorough() {
		classVals = []string{"", "digits", "digits, symbols", "uppercase,lowercase", "ambiguous", "lowercase, uppercase, digits", "digits,digits", "digits,lowercase,digits"}
		npol = 2
	}
	for _, L := range lengths {
		for _, al := range classVals {
			for _, rq := range classVals {
				for _, ex := range classVals {
					if !c.Mine() {
						continue
					}
					c17Chars(c, L, al, rq, ex, false, npol)
					if L == "" || L == "3" {
						c17Chars(c, L, al, rq, ex, true, 1)
					}
				}
			}
		}
		if c.Expired() {
			c.Incomplete("deadline")
			return
		}
	}
	lists := []wordsCase{{List: ""}, {List: "words"}, {List: "syllables"}, {List: "nope"}, {File: "three.txt"}, {File: "dups.txt"}, {File: "twin.txt"}, {File: "empty.txt"}, {File: "one.txt"}, {File: "onedup.txt"}, {File: "percent.txt"}, {File: "longline.txt"}, {File: "longword.txt"}, {File: "stdin:three.txt"}, {File: "fifo:three.txt"}, {File: "stdin:longline.txt"}, {File: "fifo:dups.txt"}}
	sizes := []string{"", "0", "1", "3"}
	seps := []string{"", "hyphen", "space", "comma", "period", "underscore", "digit", "none"}
	caps := []string{"", "none", "first", "all", "random", "one"}
	if !c.Thorough() {
		lists = []wordsCase{{List: ""}, {List: "syllables"}, {List: "nope"}, {File: "three.txt"}, {File: "dups.txt"}, {File: "twin.txt"}, {File: "empty.txt"}, {File: "one.txt"}, {File: "onedup.txt"}, {File: "percent.txt"}, {File: "longline.txt"}, {File: "longword.txt"}, {File: "stdin:three.txt"}, {File: "fifo:three.txt"}, {File: "stdin:longline.txt"}}
		sizes = []string{"", "0", "3"}
		seps = []string{"", "space", "digit", "none"}
		caps = []string{"", "first", "random", "one"}
	}
	for _, l := range lists {
		for _, sz := range sizes {
			for _, sp := range seps {
				for _, cp := range caps {
					for _, e := range []bool{false, true} {
						if !c.Mine() {
							continue
						}
						w := l
						w.Size, w.Sep, w.Cap, w.Entropy = sz, sp, cp, e
						c17Words(c, w, dir)
					}
				}
			}
		}
	}
	// usage errors
	usage := [][]string{{}, {"bogus"}, {"characters", "--bogus"}, {"words", "--bogus=1"}, {"recipe"}, {"characters", "--length=abc"}, {"words", "--list=nope"}, {"--entropy"}}
	for _, a := range usage {
		if !c.Mine() {
			continue
		}
		res := runOpgen(a, tapeHexOf([]uint32{1, 2, 3, 4, 5, 6, 7, 8, 9, 10, 11, 12, 13, 14, 15, 16, 17, 18, 19, 20, 21, 22, 23, 24}))
		c.Count("executions", 1)
		c.Count("cli_runs", 1)
		if res.Status != 2 {
			c.Violation("opgen "+strings.Join(a, " ")+" usage", fmt.Sprintf("status %d, expected 2 (usage error); stdout %q", res.Status, truncText(res.Stdout)), map[string]interface{}{"args": a})
		}
		c.Outcome("usage")
	}
	if c.Shard == 0 {
		c.Sample(map[string]interface{}{"args": []string{"characters", "--length=3", "--allow=digits, symbols", "--require=digits"}, "tapes": npol})
		c.Sample(map[string]interface{}{"args": []string{"words", "--file=dups.txt", "--size=3", "--separator=digit", "--capitalize=one"}})
	}
}

func c17Prepare(tier string) ([]string, func(), error) {
	dir, err := os.MkdirTemp("", "verif-c17-")
	if err != nil {
		return nil, nil, err
	}
	for name, words := range cliFiles() {
		sep := "\n"
		if name == "longline.txt" {
			sep = " "
		}
		if err := os.WriteFile(filepath.Join(dir, name), []byte(strings.Join(words, sep)+"\n"), 0o644); err != nil {
			return nil, nil, err
		}
	}
	os.WriteFile(filepath.Join(dir, "empty.txt"), nil, 0o644)
	bin := filepath.Join(dir, "opgen")
	cmd := exec.Command("go", "build", "-tags", "verif", "-o", bin, "go.1password.io/spg/cmd/opgen")
	cmd.Dir = core.Root + "/harness"
	cmd.Env = append(os.Environ(), "GOFLAGS=-mod=mod", "GOPROXY=off", "GOSUMDB=off", "GOTOOLCHAIN=local", "GOCACHE=/verif/.cache/go-build")
	if out, err := cmd.CombinedOutput(); err != nil {
		os.RemoveAll(dir)
		return nil, nil, fmt.Errorf("building opgen: %v\n%s", err, out)
	}
	return []string{"VERIF_OPGEN=" + bin, "VERIF_C17_DIR=" + dir}, func() { os.RemoveAll(dir) }, nil
}

func init() {
	Register(&core.Check{
		ID:    "C17",
		Level: "exploration",
		Rule: "the built opgen binary (tag verif, random bytes from $VERIF_TAPE) is run for the full product of flag values: characters: --length {unset,0,1,3,20} x --allow/--require/--exclude each over 6 (thorough 12) class lists incl. lists with several blanks x 2-3 tapes, plus --entropy; words: 9-10 list/file choices (built-in, unknown, files with distinct, duplicate, twin, one and no words) x --size {unset,0,(1,)3} x 4-8 separators x 4-6 schemes x --entropy on/off; and 8 usage errors; " +
			"oracle: stdout/exit status against the recipe the documentation says the flags mean (equal to the library on the same tape, or at least a password that recipe can generate); non-trivial = distinct stdout lines",
		Assume:    []string{"only documented flag values are used for classes, separators and schemes", "with --entropy only recipes the library can honour are judged"},
		Run:       c17Run,
		Prepare:   c17Prepare,
		StatesKey: "cli_runs", TransKey: "cli_runs",
	})
	Replayers["C17"] = func(raw json.RawMessage) (string, bool) {
		var rp struct {
			Args []string `json:"args"`
			Tape string   `json:"tape"`
			Via  string   `json:"file_via"`
		}
		json.Unmarshal(raw, &rp)
		env, cleanup, err := c17Prepare("quick")
		if err != nil {
			return err.Error(), false
		}
		defer cleanup()
		for _, e := range env {
			i := strings.IndexByte(e, '=')
			os.Setenv(e[:i], e[i+1:])
		}
		for i, a := range rp.Args {
			if strings.HasPrefix(a, "--file=") {
				rp.Args[i] = "--file=" + filepath.Join(os.Getenv("VERIF_C17_DIR"), filepath.Base(a))
				if k := strings.IndexByte(rp.Via, ':'); k > 0 {
					// the list was delivered through a pipe: replay it on standard input
					b, _ := os.ReadFile(filepath.Join(os.Getenv("VERIF_C17_DIR"), rp.Via[k+1:]))
					opgenStdin = append([]byte{}, b...)
					rp.Args[i] = "--file=/dev/stdin"
				}
			}
		}
		res := runOpgen(rp.Args, rp.Tape)
		return fmt.Sprintf("opgen %v -> status %d stdout %q stderr %q (compare with the message in the replay file)", rp.Args, res.Status, res.Stdout, truncText(res.Stderr)), true
	}
}
