package checks

import (
	"fmt"
	"log"
	"os"
	"regexp"
	"strings"
	"syscall"

	"go.1password.io/spg"
	"verif/harness/core"
	"verif/harness/ref"
	"verif/harness/tape"
)

// ---------- C18: secrets leave only through the returned Password ----------

type capture struct {
	f       *os.File
	off     int64
	savedFd int
}

// startCapture redirects file descriptors 1 and 2 (hence fmt.Print*, log.*,
// println and anything holding os.Stdout/os.Stderr) to an unlinked file.
func startCapture() (*capture, error) {
	f, err := os.CreateTemp("", "verif-capture-")
	if err != nil {
		return nil, err
	}
	os.Remove(f.Name())
	saved, err := syscall.Dup(2)
	if err != nil {
		return nil, err
	}
	if err := syscall.Dup2(int(f.Fd()), 1); err != nil {
		return nil, err
	}
	if err := syscall.Dup2(int(f.Fd()), 2); err != nil {
		return nil, err
	}
	log.SetFlags(0)
	log.SetOutput(os.Stderr)
	return &capture{f: f, savedFd: saved}, nil
}

func (c *capture) take() string {
	st, err := c.f.Stat()
	if err != nil {
		return ""
	}
	n := st.Size() - c.off
	if n <= 0 {
		return ""
	}
	buf := make([]byte, n)
	c.f.ReadAt(buf, c.off)
	c.off = st.Size()
	return string(buf)
}

var numberRE = regexp.MustCompile(`[+-]?[0-9]+(\.[0-9]+)?([eE][+-]?[0-9]+)?|NaN|[+-]?Inf`)

// two relabellings of the template letters a<b<c<d; both are in increasing
// code-point order, so a scripted stream selects corresponding characters
var glyphSets = [][]string{{"ʘ", "ψ", "ж", "ѣ"}, {"ƕ", "ȣ", "ʭ", "ξ"}}

// relabel maps a,b,c,d (the template letters) to the glyphs of set k.
func relabel(s string, k int) string {
	r := strings.NewReplacer("a", glyphSets[k][0], "b", glyphSets[k][1], "c", glyphSets[k][2], "d", glyphSets[k][3])
	return r.Replace(s)
}

func relabelAll(ss []string, k int) []string {
	if ss == nil {
		return nil
	}
	out := make([]string, len(ss))
	for i, s := range ss {
		out[i] = relabel(s, k)
	}
	return out
}

func hasGlyph(s string) string {
	for _, gs := range glyphSets {
		for _, g := range gs {
			if strings.Contains(s, g) {
				return g
			}
		}
	}
	return ""
}

type c18State struct {
	c   *core.Ctx
	cap *capture
	// per (template id, outcome class): the captured text of the first
	// execution, for non-interference
	seen map[string]string
}

// observe classifies one execution and applies both oracles.
func (s *c18State) observe(template string, class string, out GenOut, rp map[string]interface{}, glyphs bool) {
	if out.Raw != nil {
		// what the caller does next with the password is library code too:
		// rendering, the token index and its decoding must stay silent
		func() {
			defer func() { recover() }()
			p := out.Raw
			_ = p.String()
			_ = p.Tokens().Atoms()
			_ = p.Tokens().Separators()
			_ = p.Tokens().Kind()
			idx, err := p.Tokens().MakeIndices()
			if err == nil {
				spg.Tokenize(p.String(), idx, p.Entropy)
			}
		}()
	}
	text := s.cap.take()
	s.c.Count("executions", 1)
	if glyphs {
		if g := hasGlyph(text); g != "" {
			s.c.Violation("leak "+template, fmt.Sprintf("captured stdout/stderr/log output %q contains the secret character %q", truncText(text), g), rp)
			return
		}
		if g := hasGlyph(out.Err); g != "" {
			s.c.Violation("leak-in-error "+template, fmt.Sprintf("returned error %q contains the secret character %q", out.Err, g), rp)
			return
		}
	}
	// non-interference is judged on the text with every number replaced by
	// '#': diagnostics may contain counts and probabilities, and those may
	// legitimately depend on what was drawn (how many requirements a rejected
	// candidate missed); anything else that varies is a fragment of a secret
	text = numberRE.ReplaceAllString(text, "#")
	k := template + " / " + class
	if prev, ok := s.seen[k]; ok {
		if prev != text {
			s.c.Violation("interference "+template, fmt.Sprintf("output written by the library depends on the random stream or on the secret alphabet: %q vs %q (outcome class %s)", truncText(prev), truncText(text), class), rp)
		}
	} else {
		s.seen[k] = text
		if text != "" {
			s.c.Count("classes_with_diagnostics", 1)
			s.c.Outcome(text)
		}
	}
}

func truncText(s string) string {
	if len(s) > 160 {
		return s[:160] + "..."
	}
	return s
}

func outcomeClass(out GenOut, t *tape.Tape) string {
	switch {
	case out.Panic != "":
		return "panic"
	case out.HasPw:
		return fmt.Sprintf("returned after %d words", t.Words)
	case t.Words == 0:
		return "refused"
	default:
		return fmt.Sprintf("failed after %d words", t.Words)
	}
}

func c18Run(c *core.Ctx) {
	cp, err := startCapture()
	if err != nil {
		c.Incomplete("cannot capture output: %v", err)
		return
	}
	defer func() {
		if x := recover(); x != nil {
			syscall.Write(cp.savedFd, []byte(fmt.Sprintf("c18 harness panic: %v\n", x)))
			panic(x)
		}
	}()
	s := &c18State{c: c, cap: cp, seen: map[string]string{}}
	// ---- character recipes over secret glyphs: complete cells, 2 candidates deep
	strs := []string{"", "a", "ab", "abc", "aab", "bc", "d", "da"}
	var templates []ref.CharRecipe
	lens, depth := []int{1, 2, 3}, 2
	if c.Thorough() {
		lens, depth = []int{1, 2, 3, 4}, 3
		strs = append(strs, "abcd", "dd", "cab")
	}
	for _, L := range lens {
		for _, al := range strs {
			for _, ex := range []string{"", "a", "bc"} {
				for _, rq := range [][]string{nil, {"a"}, {"ab"}, {"a", "b"}, {"ab", "bc"}, {"d", "d"}, {"abcd", "a", "b"}} {
					templates = append(templates, ref.CharRecipe{Length: L, AllowChars: al, ExcludeChars: ex, RequireSets: rq})
				}
			}
		}
	}
	// alphabets containing bytes that are not valid UTF-8 (0xff, 0xfe never
	// combine with anything)
	for _, L := range []int{2, 3} {
		for _, rq := range [][]string{{"a"}, {"a\xff"}, {"b", "\xfe"}} {
			templates = append(templates, ref.CharRecipe{Length: L, AllowChars: "abc\xff\xfe", RequireSets: rq})
		}
	}
	for ti, tr := range templates {
		if !c.Mine() {
			continue
		}
		if c.Expired() {
			c.Incomplete("deadline")
			return
		}
		tname := fmt.Sprintf("char#%d %s", ti, mustJSON(recipeLit(tr)))
		for k := range glyphSets {
			r := tr
			r.AllowChars, r.ExcludeChars, r.RequireSets = relabel(tr.AllowChars, k), relabel(tr.ExcludeChars, k), relabelAll(tr.RequireSets, k)
			sr := toSpg(r)
			rp := map[string]interface{}{"recipe": recipeLit(r)}
			cp.take()
			st := exploreCell(sr.Generate, CellOpt{DepthCut: depth * r.Length, Fallback: 2, MaxMenu: 64, MaxLeaves: 60000, Dev: -1}, func(l *Leaf) {
				if l.Out.Aborted {
					cp.take()
					return
				}
				s.observe(tname, outcomeClass(l.Out, l.Tape), l.Out, rp, true)
			})
			c.Count("nodes", st.Nodes)
			c.Count("edges", st.Edges)
			// the random source fails at read k (k = 1..6): whatever was drawn
			// so far is a secret too
			for k := 1; k <= 6; k++ {
				t := policyTape(func(b uint32, i int) uint32 { return uint32(i + 1) })
				t.FaultAt, t.Fault = k, tape.Fault{Deliver: k % 3, Err: errInjected}
				install(t)
				out := runGen(sr.Generate)
				cls := "source fails: " + outcomeClass(out, t)
				if out.Panic != "" {
					cls = fmt.Sprintf("source fails at read %d: panic", k)
					out.Err = out.Panic
				}
				s.observe(tname, cls, out, rp, true)
			}
			// other entry points write nothing secret either
			func() {
				defer func() { recover() }()
				_ = sr.Entropy()
				_ = sr.SuccessProbability()
				_ = sr.Alphabet()
			}()
			s.observe(tname, "Entropy+SuccessProbability+Alphabet", GenOut{}, rp, true)
			// every attempt fails
			if req := r.Req(); len(req) > 0 {
				ab := r.Alphabet()
				bad := -1
				for i, ch := range ab {
					in := false
					for _, x := range req[0] {
						if x == ch {
							in = true
						}
					}
					if !in {
						bad = i
					}
				}
				if bad >= 0 {
					for _, budget := range []int{200, 2} {
						oldT, oldR := spg.MaxTrials, spg.MaxFailRate
						spg.MaxTrials, spg.MaxFailRate = budget, 1
						t := policyTape(func(b uint32, i int) uint32 { return uint32(bad) })
						install(t)
						out := runGen(sr.Generate)
						spg.MaxTrials, spg.MaxFailRate = oldT, oldR
						s.observe(tname, fmt.Sprintf("all %d attempts fail: %s", budget, outcomeClass(out, t)), out, rp, true)
					}
				}
			}
		}
		c.Count("templates", 1)
	}
	// ---- wordlist recipes over secret glyphs
	wlT := []WLCase{}
	for _, ws := range [][]string{{"ab", "cd"}, {"ab", "cd", "abd"}, {"ab", "ab", "cd"}, {"a", "b", "c", "d", "a", "a"},
		// words starting with letters whose case mapping is unusual (dotless i, long s, sharp s, a digraph)
		{"ıab", "ſcd"}, {"ßab", "ǆcd", "ıd"},
		// a word too long for the token index (its error path)
		{strings.Repeat("ab", 150), "cd"}} {
		wls := []int{1, 2}
		if c.Thorough() {
			wls = []int{1, 2, 3}
		}
		for _, L := range wls {
			for _, cpz := range wlSchemes {
				for _, sp := range []Sep{{Kind: "none"}, {Kind: "char", Char: "d"}, {Kind: "sf", Recipe: &ref.CharRecipe{Length: 1, AllowChars: "cd"}},
					{Kind: "sf", Recipe: &ref.CharRecipe{Length: 0, AllowChars: "cd"}}, {Kind: "sf", Recipe: &ref.CharRecipe{Length: 2, AllowChars: "c", RequireSets: []string{"d"}}},
					// caller-written separator functions that claim an unusual entropy
					{Kind: "customEnt", Char: "d", Ent: "NaN"}, {Kind: "customEnt", Char: "c", Ent: "-Inf"}, {Kind: "customEnt", Char: "dc", Ent: "+Inf"}, {Kind: "customEnt", Char: "d", Ent: "-1000"},
					{Kind: "customEnt", Char: strings.Repeat("d", 300), Ent: "1"}} {
					if sp.Kind == "customEnt" && (cpz == "first" || cpz == "all") {
						continue
					}
					wlT = append(wlT, WLCase{Words: ws, Length: L, Cap: cpz, Sep: sp})
				}
			}
		}
	}
	for ti, tw := range wlT {
		if !c.Mine() {
			continue
		}
		tname := fmt.Sprintf("wl#%d %s", ti, mustJSON(tw))
		for k := range glyphSets {
			w := tw
			w.Words = relabelAll(tw.Words, k)
			w.Sep.Char = relabel(tw.Sep.Char, k)
			if tw.Sep.Recipe != nil {
				rr := *tw.Sep.Recipe
				rr.AllowChars, rr.RequireSets = relabel(rr.AllowChars, k), relabelAll(rr.RequireSets, k)
				w.Sep.Recipe = &rr
			}
			rp := map[string]interface{}{"case": w}
			cp.take()
			r, err := w.build()
			s.observe(tname, "NewWordList", GenOut{}, rp, true)
			if err != nil {
				continue
			}
			dev := -1
			if _, _, retry := w.sepModel(); retry {
				dev = 2
			}
			st := exploreCell(r.Generate, CellOpt{DepthCut: 24, Fallback: 2, MaxMenu: 64, MaxLeaves: 20000, Dev: dev}, func(l *Leaf) {
				if l.Out.Aborted {
					cp.take()
					return
				}
				s.observe(tname, outcomeClass(l.Out, l.Tape), l.Out, rp, true)
			})
			c.Count("nodes", st.Nodes)
			c.Count("edges", st.Edges)
			for k := 1; k <= 8; k++ {
				t := policyTape(func(b uint32, i int) uint32 { return uint32(i + 1) })
				t.FaultAt, t.Fault = k, tape.Fault{Deliver: k % 3, Err: errInjected}
				install(t)
				out := runGen(r.Generate)
				cls := "source fails: " + outcomeClass(out, t)
				if out.Panic != "" {
					cls = fmt.Sprintf("source fails at read %d: panic", k)
					out.Err = out.Panic
				}
				s.observe(tname, cls, out, rp, true)
			}
			func() {
				defer func() { recover() }()
				install(policyTape(func(b uint32, i int) uint32 { return 1 }))
				_ = r.Entropy()
			}()
			s.observe(tname, "Entropy", GenOut{}, rp, true)
		}
		c.Count("templates", 1)
	}
	// ---- class-based recipes: non-interference only
	classR := []ref.CharRecipe{
		{Length: 2, Allow: ref.Lowers},
		{Length: 2, Allow: ref.Symbols, Require: ref.Uppers},
		{Length: 1, Allow: ref.Lowers, Require: ref.Uppers},
		{Length: 3, Allow: ref.Lowers, Exclude: ref.Lowers},
		{Length: 0, Allow: ref.Lowers},
		{Length: 8, Allow: ref.Letters, Require: ref.Symbols | ref.Uppers},
	}
	for ti, r := range classR {
		if !c.Mine() {
			continue
		}
		tname := fmt.Sprintf("class#%d", ti)
		sr := toSpg(r)
		cp.take()
		st := exploreCell(sr.Generate, CellOpt{DepthCut: 2 * r.Length, Fallback: 2, MaxMenu: 128, MaxLeaves: 3000, Dev: -1}, func(l *Leaf) {
			if l.Out.Aborted {
				cp.take()
				return
			}
			s.observe(tname, outcomeClass(l.Out, l.Tape), l.Out, map[string]interface{}{"recipe": recipeLit(r)}, false)
		})
		c.Count("nodes", st.Nodes)
		c.Count("edges", st.Edges)
		c.Count("templates", 1)
	}
	if c.Shard == 0 {
		c.Sample(map[string]interface{}{"template": "RequireSets {ab,bc} over glyphs", "relabelling_1": relabelAll([]string{"ab", "bc"}, 0), "relabelling_2": relabelAll([]string{"ab", "bc"}, 1)})
	}
}

func init() {
	Register(&core.Check{
		ID:    "C18",
		Level: "model_checking",
		Rule: "504 character-recipe templates and 200 wordlist templates whose alphabets, words and separators are secret glyphs (two relabellings: жѣψʘ and ξƕȣʭ), each explored as a complete cell (2 candidates deep; retrying separators with <=2 deviations) plus refused recipes, all-attempts-fail tapes, a source failure at each of the first 6-8 reads, alphabets with bytes that are not valid UTF-8, NewWordList with duplicates, Entropy/SuccessProbability/Alphabet; fd 1, fd 2 and the log are captured per execution; oracle: no secret glyph in the captured text or in a returned error, and the captured text, with numbers masked (counts and probabilities are allowed to vary), is identical for all random streams of an outcome class and for both relabellings; " +
			"non-trivial = outcome classes that emitted a diagnostic",
		Assume: []string{"file-descriptor level capture sees everything the process writes to stdout/stderr, including the log package", "class-based recipes (letters and symbols; digits are masked as numbers) use the non-interference oracle only"},
		Run:    c18Run,
	})
}
