package checks

import (
	"fmt"
	"math"
	"math/big"
	"strings"

	"go.1password.io/spg"
	"verif/harness/explore"
	"verif/harness/ref"
	"verif/harness/tape"
)

// ---------- calibration: one representative word per (bound, outcome) ----------

type calib struct {
	cache map[[2]uint32]uint32
	fail  map[uint32]bool
	scan  map[uint32]uint64 // per bound: how far the structured scan has got
}

var cal = &calib{cache: map[[2]uint32]uint32{}, fail: map[uint32]bool{}, scan: map[uint32]uint64{}}

// try feeds one word to the real bounded draw and reports (outcome, reads).
func drawOnce(n uint32, words ...uint32) (res uint32, reads int, ok bool) {
	t := tape.New(&tape.Script{W: words})
	tape.Install(t)
	defer func() {
		if r := recover(); r != nil {
			ok = false
		}
	}()
	res = spg.VerifRandomUint32n(n)
	return res, t.Words, true
}

// Rep returns a word that the implementation accepts at once and maps to
// outcome r for bound n. ok=false if none was found (exotic sampler).
func (c *calib) Rep(n, r uint32) (uint32, bool) {
	if n == 0 {
		return 0, false
	}
	k := [2]uint32{n, r}
	if w, ok := c.cache[k]; ok {
		return w, true
	}
	if c.fail[n] {
		return r, false
	}
	if tape.InRead() {
		// asked from inside a Read of the code under test: calling the
		// sampler now would re-enter the library. Serve the textbook guess
		// unverified; bounds up to 512 are calibrated at start-up and big
		// bounds by the checks that use them, so this is rare and counted.
		return r, true
	}
	saved := curTape()
	defer tape.Install(saved)
	K := (uint64(1) << 32) / uint64(n)
	v0 := (uint64(r)<<32 + uint64(n) - 1) / uint64(n) // multiply-shift samplers: the first word of outcome r (rejected when its low product is small; the next ones are not)
	cands := []uint32{r, uint32(uint64(r) * K), uint32(v0), uint32(v0 + 1), uint32(v0 + 2), uint32(v0 + 3), uint32(uint64(r)*K + K/2)}
	for _, w := range cands {
		if res, reads, ok := drawOnce(n, w, w); ok && reads == 1 && res == r {
			c.cache[k] = w
			return w, true
		}
	}
	// last resort: scan a structured word set (once per bound: every outcome
	// met on the way is recorded, and the scan resumes where it stopped)
	for i := c.scan[n]; i < 1<<14; i++ {
		c.scan[n] = i + 1
		for _, w := range []uint32{uint32(i), uint32(i << 18)} {
			if res, reads, ok := drawOnce(n, w, w); ok && reads == 1 && res < n {
				c.cache[[2]uint32{n, res}] = w
			}
		}
		if w, ok := c.cache[k]; ok {
			return w, true
		}
	}
	c.fail[n] = true
	return r, false
}

// precalibrate fills the representative table for every bound up to max.
func precalibrate(max uint32) {
	for n := uint32(1); n <= max; n++ {
		for r := uint32(0); r < n; r++ {
			cal.Rep(n, r)
		}
		rejectWords(n)
	}
}

var tapeNow *tape.Tape

func curTape() *tape.Tape { return tapeNow }

func install(t *tape.Tape) { tapeNow = t; tape.Install(t) }

// ---------- running one generation ----------

// GenOut is the observable result of one Generate call.
type GenOut struct {
	Toks    []ref.Tok
	Str     string
	Entropy float32
	Err     string
	HasPw   bool
	Panic   string
	Aborted bool
	Atoms   []string // Tokens().Atoms()
	Seps    []string // Tokens().Separators()
	Raw     *spg.Password
}

// Key is a canonical rendering of the token sequence.
func tokKey(t []ref.Tok) string {
	var b strings.Builder
	for i, x := range t {
		if i > 0 {
			b.WriteByte('|')
		}
		if x.T == 1 {
			b.WriteString("A:")
		} else {
			b.WriteString(fmt.Sprintf("%d:", x.T))
		}
		b.WriteString(x.V)
	}
	return b.String()
}

func toToks(ts spg.Tokens) []ref.Tok {
	out := make([]ref.Tok, len(ts))
	for i, t := range ts {
		out[i] = ref.Tok{V: t.Value(), T: byte(t.Type())}
	}
	return out
}

// runGen calls g with panics recovered.
func runGen(g func() (*spg.Password, error)) (o GenOut) {
	defer func() {
		if r := recover(); r != nil {
			if _, ok := r.(tape.Abort); ok {
				o.Aborted = true
				return
			}
			o.Panic = fmt.Sprint(r)
		}
	}()
	p, err := g()
	if err != nil {
		o.Err = err.Error()
	}
	if p != nil {
		o.HasPw = true
		o.Toks = toToks(p.Tokens())
		o.Str = p.String()
		o.Entropy = p.Entropy
		o.Atoms = p.Tokens().Atoms()
		o.Seps = p.Tokens().Separators()
		o.Raw = p
	}
	return o
}

// toSpg converts a model recipe into the real one.
func toSpg(r ref.CharRecipe) spg.CharRecipe {
	var rs []string
	if r.RequireSets != nil {
		rs = append([]string{}, r.RequireSets...)
	}
	return spg.CharRecipe{Length: r.Length, Allow: spg.CTFlag(r.Allow), Require: spg.CTFlag(r.Require), Exclude: spg.CTFlag(r.Exclude),
		AllowChars: r.AllowChars, RequireSets: rs, ExcludeChars: r.ExcludeChars}
}

// ---------- complete cells ----------

// cellSource answers every draw from the explorer's choice at that point.
type cellSource struct {
	ch       *explore.Chooser
	t        *tape.Tape
	fallback uint32 // menu size for unannounced reads
	maxMenu  uint32
	rot      func(n uint32) uint32
	bigRaw   bool
	bounds   []uint32
	outs     []uint32
	uncal    bool
	tooWide  bool
	contSeen bool
}

// rawMenu is the menu for a read made outside any announced bounded draw (the
// implementation consumes a raw 32-bit word): small values, every single-bit
// word, all ones and a few mixed patterns. It cannot decide uniformity (that
// would take 2^32 alternatives) - cells containing such reads are reported as
// not decided for distribution verdicts - but it lets the structural and
// coverage oracles see every bit position move.
var rawMenu = func() []uint32 {
	m := []uint32{0, 1, 2, 3, 4, 5, 6, 7}
	for k := uint(3); k < 32; k++ {
		m = append(m, 1<<k)
	}
	return append(m, 0xffffffff, 0x80000001, 0x55555555, 0xaaaaaaaa, 0x0000ffff, 0xffff0000)
}()

// rawMenuBig adds 4096 words of a fixed linear congruential sequence. It is
// used by the single-deviation coverage explorations: a coordinate value is
// reported unreachable only if none of these 4141 raw words (with every other
// draw at its default) produces it - for a correct implementation, in which
// each coordinate value has probability >= 1/Length under a uniform raw word,
// that cannot happen in practice (< 1e-13), so correct code is not alarmed;
// it is a stated finite word set, not a proof over all 2^32 raw values.
var rawMenuBig = func() []uint32 {
	m := append([]uint32{}, rawMenu...)
	x := uint32(0x9e3779b9)
	for i := 0; i < 4096; i++ {
		x = x*1664525 + 1013904223
		m = append(m, x^(x>>15))
	}
	return m
}()

func (s *cellSource) NextWord(bound uint32, announced, cont bool) (uint32, error) {
	if s.ch.PastCut() {
		s.t.AbortNow()
	}
	if !announced {
		menu := rawMenu
		if s.bigRaw {
			menu = rawMenuBig
		}
		k := s.ch.Choose(len(menu))
		s.bounds = append(s.bounds, uint32(len(menu)))
		s.outs = append(s.outs, uint32(k))
		return menu[k], nil
	}
	n := bound
	if cont {
		s.contSeen = true
	}
	if n == 0 {
		// a draw with bound 0 is about to panic in the implementation;
		// give it a word anyway
		return 0, nil
	}
	m := n
	if s.maxMenu > 0 && m > s.maxMenu {
		s.tooWide = true
		m = s.maxMenu
	}
	k := uint32(s.ch.Choose(int(m)))
	if s.rot != nil && m == n {
		k = (k + s.rot(n)) % n
	}
	s.bounds = append(s.bounds, n)
	s.outs = append(s.outs, k)
	w, ok := cal.Rep(n, k)
	if !ok {
		s.uncal = true
	}
	return w, nil
}

// Leaf is one complete execution of a cell.
type Leaf struct {
	Out    GenOut
	Bounds []uint32 // bound of every word served
	Outs   []uint32 // outcome chosen for every word served
	Tape   *tape.Tape
	Mass   *big.Rat // product of 1/bound
}

// CellOpt bounds a cell exploration.
type CellOpt struct {
	DepthCut  int    // branch only the first DepthCut words; executions that need more are aborted (Out.Aborted)
	Fallback  uint32 // menu for unannounced reads
	MaxMenu   uint32 // cap on a single menu (marks the cell too wide)
	MaxLeaves int64  // stop after this many executions (marks the cell capped)
	Dev       int    // deviation bound (-1: complete product)
	Chunk     int    // if > 0 the source delivers at most this many bytes per Read call
	Log       bool   // keep the per-word log on each leaf's tape
	// Rot, if set, maps choice k of an announced draw with bound n to
	// outcome (k + Rot(n)) mod n, so that the default choice 0 can stand
	// for any wanted default outcome.
	Rot func(n uint32) uint32
	// BigRaw selects the 4141-word menu for raw reads (coverage explorations).
	BigRaw bool
}

// CellStats summarises an exploration.
type CellStats struct {
	Leaves, Nodes, Edges int64
	Capped, TooWide      bool
	Uncalibrated         bool
	Unannounced          int64
	ContWords            bool
	MaxDepth             int
}

// exploreCell runs g once for every combination of outcomes of its draws.
func exploreCell(g func() (*spg.Password, error), opt CellOpt, visit func(l *Leaf)) CellStats {
	ch := explore.New(opt.Dev)
	ch.DepthCut = opt.DepthCut
	var st CellStats
	saved := curTape()
	defer install(saved)
	for ch.Begin() {
		src := &cellSource{ch: ch, fallback: opt.Fallback, maxMenu: opt.MaxMenu, rot: opt.Rot, bigRaw: opt.BigRaw}
		t := tape.New(src)
		src.t = t
		t.LogOn = opt.Log
		t.CloseAfterWord = true
		if opt.Chunk > 0 {
			t.ChunkAt, t.Chunks, t.ChunkCycle = 1, []int{opt.Chunk}, true
		}
		install(t)
		out := runGen(g)
		t.EndCall()
		mass := big.NewRat(1, 1)
		for _, b := range src.bounds {
			mass.Mul(mass, big.NewRat(1, int64(b)))
		}
		if src.uncal {
			st.Uncalibrated = true
		}
		if src.tooWide {
			st.TooWide = true
		}
		if src.contSeen {
			st.ContWords = true
		}
		st.Unannounced += int64(t.Unannounced)
		visit(&Leaf{Out: out, Bounds: src.bounds, Outs: src.outs, Tape: t, Mass: mass})
		if opt.MaxLeaves > 0 && ch.Executions+1 >= opt.MaxLeaves {
			st.Capped = true
			ch.Begin() // account the last execution
			break
		}
	}
	st.Leaves, st.Nodes, st.Edges, st.MaxDepth = ch.Executions, ch.Nodes, ch.Edges, ch.MaxDepth
	return st
}

// runScript runs g on a fixed list of words.
func runScript(g func() (*spg.Password, error), words []uint32) (GenOut, *tape.Tape) {
	saved := curTape()
	defer install(saved)
	t := tape.New(&tape.Script{W: words})
	t.LogOn = true
	install(t)
	out := runGen(g)
	t.EndCall()
	return out, t
}

// Dist is an exact output distribution.
type Dist struct {
	Mass      map[string]*big.Rat // per returned token sequence
	ErrMass   *big.Rat            // executions that returned an error
	CutMass   *big.Rat            // executions aborted at the depth cut
	PanMass   *big.Rat
	Leaves    map[string]int64
	Entropies map[uint32]int64    // bit patterns of Password.Entropy seen
	Example   map[string][]uint32 // one outcome vector per output
	ErrEx     []uint32
	PanicMsg  string
	PanicEx   []uint32
}

func newDist() *Dist {
	return &Dist{Mass: map[string]*big.Rat{}, ErrMass: new(big.Rat), CutMass: new(big.Rat), PanMass: new(big.Rat),
		Leaves: map[string]int64{}, Example: map[string][]uint32{}, Entropies: map[uint32]int64{}}
}

func (d *Dist) add(l *Leaf) {
	switch {
	case l.Out.Aborted:
		d.CutMass.Add(d.CutMass, l.Mass)
	case l.Out.Panic != "":
		d.PanMass.Add(d.PanMass, l.Mass)
		if d.PanicMsg == "" {
			d.PanicMsg = l.Out.Panic
			d.PanicEx = append([]uint32{}, l.Outs...)
		}
	case !l.Out.HasPw:
		d.ErrMass.Add(d.ErrMass, l.Mass)
		if d.ErrEx == nil {
			d.ErrEx = append([]uint32{}, l.Outs...)
		}
	default:
		k := tokKey(l.Out.Toks)
		d.Entropies[math.Float32bits(l.Out.Entropy)]++
		m := d.Mass[k]
		if m == nil {
			m = new(big.Rat)
			d.Mass[k] = m
			d.Example[k] = append([]uint32{}, l.Outs...)
		}
		m.Add(m, l.Mass)
		d.Leaves[k]++
	}
}

// Total is the sum of all masses (must be 1 for a complete cell).
func (d *Dist) Total() *big.Rat {
	t := new(big.Rat)
	for _, m := range d.Mass {
		t.Add(t, m)
	}
	t.Add(t, d.ErrMass)
	t.Add(t, d.CutMass)
	t.Add(t, d.PanMass)
	return t
}

// Returned is the mass of executions that returned a password.
func (d *Dist) Returned() *big.Rat {
	t := new(big.Rat)
	for _, m := range d.Mass {
		t.Add(t, m)
	}
	return t
}

func ratLog2(r *big.Rat) float64 {
	return ref.Log2Big(r.Num()) - ref.Log2Big(r.Denom())
}

// recipeLit renders a model recipe as a Go literal for replay files.
func recipeLit(r ref.CharRecipe) map[string]interface{} {
	return map[string]interface{}{"Length": r.Length, "Allow": r.Allow, "Require": r.Require, "Exclude": r.Exclude,
		"AllowChars": r.AllowChars, "RequireSets": r.RequireSets, "ExcludeChars": r.ExcludeChars}
}
