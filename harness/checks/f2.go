package checks

import (
	"fmt"

	"go.1password.io/spg"
	"verif/harness/core"
	"verif/harness/ref"
	"verif/harness/tape"
)

// liftWords returns other words accepted at once with the same outcome.
var liftCache = map[[2]uint32][]uint32{}
var rejCache = map[uint32][]uint32{}

func liftWords(n, r uint32) []uint32 {
	k := [2]uint32{n, r}
	if w, ok := liftCache[k]; ok {
		return w
	}
	saved := curTape()
	defer install(saved)
	K := (uint64(1) << 32) / uint64(n)
	base, _ := cal.Rep(n, r)
	var out []uint32
	for _, w := range []uint64{uint64(r) + uint64(n), uint64(r) + uint64(n)*(K-1), uint64(r) + uint64(n)*(K/2)} {
		if w >= 1<<32 || uint32(w) == base {
			continue
		}
		if res, reads, ok := drawOnce(n, uint32(w), uint32(w)); ok && reads == 1 && res == r {
			out = append(out, uint32(w))
		}
	}
	liftCache[k] = out
	return out
}

func rejectWords(n uint32) []uint32 {
	if w, ok := rejCache[n]; ok {
		return w
	}
	if tape.InRead() {
		return nil // never re-enter the library from inside one of its reads
	}
	saved := curTape()
	defer install(saved)
	K := (uint64(1) << 32) / uint64(n)
	acc, _ := cal.Rep(n, 0)
	var out []uint32
	for _, w := range []uint64{K * uint64(n), 1<<32 - 1} {
		if w >= 1<<32 {
			continue
		}
		if _, reads, ok := drawOnce(n, uint32(w), acc, acc); ok && reads == 2 {
			out = append(out, uint32(w))
		}
	}
	rejCache[n] = out
	return out
}

func sameOut(a, b GenOut) bool {
	return a.HasPw == b.HasPw && a.Err == b.Err && a.Panic == b.Panic && tokKey(a.Toks) == tokKey(b.Toks) &&
		(a.Entropy == b.Entropy || a.Entropy != a.Entropy && b.Entropy != b.Entropy)
}

// f2 checks, for every first-candidate leaf of a character recipe's cell (or
// a stated subset for big cells), that replacing one word by another
// representative of the same outcome, or prefixing it with a rejected word,
// changes nothing but the number of words consumed.
func f2(c *core.Ctx, r ref.CharRecipe, key string, lit interface{}) {
	sr := toSpg(r)
	f2gen(c, sr.Generate, len(r.Alphabet()), r.Length, key, lit)
}

func f2gen(c *core.Ctx, g func() (*spg.Password, error), fallback, depth int, key string, lit interface{}) {
	stride := int64(1)
	var idx int64
	exploreCell(g, CellOpt{DepthCut: depth, Fallback: uint32(fallback), MaxMenu: 4096, MaxLeaves: 200000, Dev: -1}, func(l *Leaf) {
		idx++
		if l.Out.Aborted || idx%stride != 0 {
			return
		}
		if idx > 4096 {
			stride = 61 // big cells: every 61st leaf (a stated subset)
		}
		base := make([]uint32, len(l.Bounds))
		for i := range base {
			base[i], _ = cal.Rep(l.Bounds[i], l.Outs[i])
		}
		ref0, t0 := runScript(g, base)
		c.Count("executions", 1)
		if !sameOut(ref0, l.Out) || t0.Words != len(base) {
			c.Violation(key+" replay", fmt.Sprintf("the same words gave %v then %v", l.Out, ref0), map[string]interface{}{"recipe": lit, "words": base})
			return
		}
		// the same words delivered one byte per read must give the same result
		if msg := chunkedReplay(g, base, ref0); msg != "" {
			c.Violation(key+" chunked", msg, map[string]interface{}{"recipe": lit, "words": base, "chunks": []int{1}})
			return
		}
		c.Count("executions", 1)
		for i := range base {
			n, o := l.Bounds[i], l.Outs[i]
			for _, lw := range liftWords(n, o) {
				v := append([]uint32{}, base...)
				v[i] = lw
				got, t := runScript(g, v)
				c.Count("executions", 1)
				c.Count("f2_lift_runs", 1)
				if !sameOut(got, ref0) || t.Words != len(base) {
					c.Violation(key+" lift", fmt.Sprintf("draw %d (bound %d): word %#x and word %#x select the same outcome but the results differ: %q vs %q", i, n, base[i], lw, tokKey(ref0.Toks), tokKey(got.Toks)),
						map[string]interface{}{"recipe": lit, "words": v, "base_words": base})
					return
				}
			}
			if rws := rejectWords(n); len(rws) > 0 && idx <= 64 {
				for _, k := range []int{2, 5, 17} {
					v := append([]uint32{}, base[:i]...)
					for j := 0; j < k; j++ {
						v = append(v, rws[j%len(rws)])
					}
					v = append(v, base[i:]...)
					got, t := runScript(g, v)
					c.Count("executions", 1)
					c.Count("f2_reject_runs", 1)
					if !sameOut(got, ref0) || t.Words != len(base)+k {
						c.Violation(key+" reject", fmt.Sprintf("draw %d (bound %d): %d rejected words before %#x changed the result: %q vs %q (words used %d, expected %d)", i, n, k, base[i], tokKey(ref0.Toks), tokKey(got.Toks), t.Words, len(base)+k),
							map[string]interface{}{"recipe": lit, "words": v, "base_words": base})
						return
					}
				}
			}
			for _, rw := range rejectWords(n) {
				v := append(append(append([]uint32{}, base[:i]...), rw), base[i:]...)
				got, t := runScript(g, v)
				c.Count("executions", 1)
				c.Count("f2_reject_runs", 1)
				if !sameOut(got, ref0) || t.Words != len(base)+1 {
					c.Violation(key+" reject", fmt.Sprintf("draw %d (bound %d): a rejected word %#x before %#x changed the result: %q vs %q (words used %d, expected %d)", i, n, rw, base[i], tokKey(ref0.Toks), tokKey(got.Toks), t.Words, len(base)+1),
						map[string]interface{}{"recipe": lit, "words": v, "base_words": base})
					return
				}
			}
		}
	})
}

// chunkedReplay re-runs g on the same words served one byte per Read call (a
// legal io.Reader behaviour) and compares with the whole-word result.
func chunkedReplay(g func() (*spg.Password, error), words []uint32, want GenOut) string {
	saved := curTape()
	defer install(saved)
	t := tape.New(&tape.Script{W: words})
	t.ChunkAt, t.Chunks, t.ChunkCycle = 1, []int{1}, true
	install(t)
	got := runGen(g)
	t.EndCall()
	if !sameOut(got, want) {
		return fmt.Sprintf("the same random bytes delivered one byte per read give %q (%s%s) instead of %q", tokKey(got.Toks), got.Err, got.Panic, tokKey(want.Toks))
	}
	return ""
}
