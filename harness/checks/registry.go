// Package checks holds one check per property.
package checks

import "verif/harness/core"

var registry = map[string]*core.Check{}

// Register adds a check.
func Register(c *core.Check) { registry[c.ID] = c }

// Get looks a check up by property id.
func Get(id string) *core.Check { return registry[id] }

// IDs lists the registered ids.
func IDs() []string {
	var out []string
	for k := range registry {
		out = append(out, k)
	}
	return out
}

func init() {
	core.Startup = func() { precalibrate(300) }
}
