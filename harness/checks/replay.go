package checks

import (
	"encoding/json"
	"fmt"
	"os"

	"verif/harness/core"
)

// Replayers re-run one recorded case outside the explorer; they return a
// description of what happened and whether the violation reproduced.
var Replayers = map[string]func(raw json.RawMessage) (string, bool){}

// Replay re-runs a replay file 5 times and reports whether it fails every time.
func Replay(ch *core.Check, path string) int {
	b, err := os.ReadFile(path)
	if err != nil {
		fmt.Fprintln(os.Stderr, err)
		return 3
	}
	var f struct {
		Property string          `json:"property"`
		Key      string          `json:"key"`
		Msg      string          `json:"msg"`
		Replay   json.RawMessage `json:"replay"`
	}
	if err := json.Unmarshal(b, &f); err != nil {
		fmt.Fprintln(os.Stderr, err)
		return 3
	}
	rp := Replayers[ch.ID]
	if rp == nil {
		// generic: re-run the whole check in this process (one shard) and
		// look for the recorded violation key
		rp = func(json.RawMessage) (string, bool) {
			c := &core.Ctx{ID: ch.ID, Tier: "quick", NShards: 1}
			ch.Run(c)
			for _, v := range c.R.Violations {
				if v.Key == f.Key {
					return v.Msg, true
				}
			}
			return fmt.Sprintf("re-ran %s in one process: %d violation(s), none with key %q", ch.ID, c.R.NViol, f.Key), c.R.NViol > 0
		}
	}
	fails := 0
	for i := 0; i < 5; i++ {
		desc, bad := rp(f.Replay)
		if i == 0 {
			fmt.Println(desc)
		}
		if bad {
			fails++
		}
	}
	fmt.Printf("replay of %s (%s): violated in %d of 5 runs\n", path, f.Key, fails)
	if fails > 0 {
		fmt.Printf("VIOLATION property=%s replay=%s\n", ch.ID, path)
		return 1
	}
	return 0
}
