package checks

import (
	"fmt"
	"math"
	"math/big"
	"sort"
	"strconv"
	"strings"

	"go.1password.io/spg"
	"verif/harness/ref"
)

// ---------- wordlist cases and their model ----------

// Sep describes a separator setting.
type Sep struct {
	Kind   string          `json:"kind"` // "none", "char", "SFNone", preset name, "sf"
	Char   string          `json:"char,omitempty"`
	Recipe *ref.CharRecipe `json:"recipe,omitempty"`
	Ent    string          `json:"ent,omitempty"` // kind "customEnt": the entropy the function claims ("NaN", "+Inf", "-Inf" or a number)
}

// WLCase is one wordlist recipe.
type WLCase struct {
	Words  []string `json:"words"`
	Length int      `json:"length"`
	Cap    string   `json:"cap"`
	Sep    Sep      `json:"sep"`
}

var presetFuncs = map[string]spg.SFFunction{
	"SFNone":               spg.SFNone,
	"SFDigits1":            spg.SFDigits1,
	"SFDigits2":            spg.SFDigits2,
	"SFDigitsNoAmbiguous1": spg.SFDigitsNoAmbiguous1,
	"SFDigitsNoAmbiguous2": spg.SFDigitsNoAmbiguous2,
	"SFSymbols":            spg.SFSymbols,
	"SFDigitsSymbols":      spg.SFDigitsSymbols,
}

// presetModel is the documented behaviour of each preset (C16 checks it).
var presetModel = map[string]ref.CharRecipe{
	"SFDigits1":            {Length: 1, Allow: ref.Digits},
	"SFDigits2":            {Length: 2, Allow: ref.Digits},
	"SFDigitsNoAmbiguous1": {Length: 1, Allow: ref.Digits, Exclude: ref.Ambiguous},
	"SFDigitsNoAmbiguous2": {Length: 2, Allow: ref.Digits, Exclude: ref.Ambiguous},
	"SFSymbols":            {Length: 1, Allow: ref.Symbols},
	"SFDigitsSymbols":      {Length: 1, Allow: ref.Symbols | ref.Digits},
}

// build constructs the real recipe (a fresh word list every time).
func (w WLCase) build() (*spg.WLRecipe, error) {
	wl, err := spg.NewWordList(append([]string{}, w.Words...))
	if err != nil {
		return nil, err
	}
	r := spg.NewWLRecipe(w.Length, wl)
	r.Capitalize = spg.CapScheme(w.Cap)
	switch w.Sep.Kind {
	case "none":
	case "char":
		r.SeparatorChar = w.Sep.Char
	case "sf":
		r.SeparatorFunc = spg.NewSFFunction(toSpg(*w.Sep.Recipe))
	case "custom0":
		// a caller-written separator function: draws like the library does
		// but (conservatively) claims no entropy
		cr := toSpg(*w.Sep.Recipe)
		r.SeparatorFunc = func() (string, spg.FloatE) {
			p, err := cr.Generate()
			if err != nil {
				return "", 0
			}
			return p.String(), 0
		}
	case "SFNone+char", "SFDigits1+char":
		// both fields set: the function decides, the character is ignored
		r.SeparatorFunc = presetFuncs[strings.TrimSuffix(w.Sep.Kind, "+char")]
		r.SeparatorChar = "-"
	case "customEnt":
		// a caller-written separator function that returns a fixed string and
		// claims an unusual entropy
		ent, err := strconv.ParseFloat(w.Sep.Ent, 64)
		if err != nil {
			return nil, err
		}
		sepStr := w.Sep.Char
		r.SeparatorFunc = func() (string, spg.FloatE) { return sepStr, spg.FloatE(ent) }
	case "customMixed":
		// a caller-written separator function that returns nothing or a
		// hyphen, one bit of entropy
		cr := spg.CharRecipe{Length: 1, AllowChars: "x-"}
		sepStr := "-"
		if w.Sep.Char != "" {
			sepStr = w.Sep.Char // (e.g. a very long separator)
		}
		r.SeparatorFunc = func() (string, spg.FloatE) {
			p, err := cr.Generate()
			if err != nil || p.String() == "x" {
				return "", 1
			}
			return sepStr, 1
		}
	default:
		f, ok := presetFuncs[w.Sep.Kind]
		if !ok {
			return nil, fmt.Errorf("unknown separator kind %q", w.Sep.Kind)
		}
		r.SeparatorFunc = f
	}
	return r, nil
}

// sepModel returns the separator strings the setting can produce (each
// equally likely), its entropy, and whether the model is exact (false for
// separator recipes that need retries: their cell is not finite).
func (w WLCase) sepModel() (vals []string, entropy float64, retry bool) {
	var cr *ref.CharRecipe
	switch w.Sep.Kind {
	case "none":
		return []string{""}, 0, false
	case "char":
		return []string{w.Sep.Char}, 0, false
	case "SFNone", "SFNone+char":
		return []string{""}, 0, false
	case "SFDigits1+char":
		m := presetModel["SFDigits1"]
		cr = &m
	case "customEnt":
		e, _ := strconv.ParseFloat(w.Sep.Ent, 64)
		return []string{w.Sep.Char}, e, false
	case "customMixed":
		if w.Sep.Char != "" {
			return []string{w.Sep.Char, ""}, 1, false
		}
		return []string{"-", ""}, 1, false
	case "sf", "custom0":
		cr = w.Sep.Recipe
	default:
		m := presetModel[w.Sep.Kind]
		cr = &m
	}
	ab := cr.Alphabet()
	if cr.Length < 1 || len(ab) == 0 || cr.Count().Sign() == 0 || sepRefused(*cr) {
		return []string{""}, 0, false
	}
	// all valid strings of the separator recipe
	idx := make([]int, cr.Length)
	chars := make([]string, cr.Length)
	for {
		for i, j := range idx {
			chars[i] = ab[j]
		}
		if cr.Valid(chars) {
			vals = append(vals, strings.Join(chars, ""))
		}
		i := cr.Length - 1
		for i >= 0 {
			idx[i]++
			if idx[i] < len(ab) {
				break
			}
			idx[i] = 0
			i--
		}
		if i < 0 {
			break
		}
	}
	total := new(big.Int).Exp(big.NewInt(int64(len(ab))), big.NewInt(int64(cr.Length)), nil)
	return vals, math.Log2(float64(len(vals))), total.Cmp(big.NewInt(int64(len(vals)))) != 0
}

// sepRefused reports whether Generate refuses the separator recipe at the
// default retry budget (all 200 attempts fail with probability > 1e-9); such a
// separator function yields "" with zero entropy.
func sepRefused(cr ref.CharRecipe) bool {
	ab := cr.Alphabet()
	cnt, _ := new(big.Float).SetInt(cr.Count()).Float64()
	p := cnt / math.Pow(float64(len(ab)), float64(cr.Length))
	return math.Pow(1-p, 200) > 1e-9
}

// capSets returns the sets of capitalised positions of a scheme; known=false
// for scheme strings the documentation does not define.
func capSets(scheme string, L int) (sets [][]bool, known bool) {
	mk := func() []bool { return make([]bool, L) }
	switch scheme {
	case "none":
		return [][]bool{mk()}, true
	case "first":
		s := mk()
		if L > 0 {
			s[0] = true
		}
		return [][]bool{s}, true
	case "all":
		s := mk()
		for i := range s {
			s[i] = true
		}
		return [][]bool{s}, true
	case "one":
		for i := 0; i < L; i++ {
			s := mk()
			s[i] = true
			sets = append(sets, s)
		}
		return sets, true
	case "random":
		for m := 0; m < 1<<uint(L); m++ {
			s := mk()
			for i := 0; i < L; i++ {
				s[i] = m>>uint(i)&1 == 1
			}
			sets = append(sets, s)
		}
		return sets, true
	}
	return [][]bool{mk()}, false
}

// modelDist is the distribution the documentation promises: the uniform
// product of words, capitalisation choice and separators, pushed through
// title-casing.
func (w WLCase) modelDist() (map[string]*big.Rat, int64) {
	kept, _ := ref.Normalise(w.Words)
	seps, _, _ := w.sepModel()
	caps, _ := capSets(w.Cap, w.Length)
	L := w.Length
	total := int64(len(caps))
	for i := 0; i < L; i++ {
		total *= int64(len(kept))
	}
	for i := 0; i < L-1; i++ {
		total *= int64(len(seps))
	}
	out := map[string]*big.Rat{}
	unit := big.NewRat(1, total)
	wi := make([]int, L)
	si := make([]int, maxInt(L-1, 0))
	for _, cp := range caps {
		for i := range wi {
			wi[i] = 0
		}
		for {
			for i := range si {
				si[i] = 0
			}
			for {
				var toks []ref.Tok
				for i := 0; i < L; i++ {
					word := kept[wi[i]]
					if cp[i] {
						word = ref.Title(word)
					}
					toks = append(toks, ref.Tok{V: word, T: 1})
					if i < L-1 && seps[si[i]] != "" {
						toks = append(toks, ref.Tok{V: seps[si[i]], T: 0})
					}
				}
				k := tokKey(toks)
				if out[k] == nil {
					out[k] = new(big.Rat)
				}
				out[k].Add(out[k], unit)
				if !inc(si, len(seps)) {
					break
				}
			}
			if !inc(wi, len(kept)) {
				break
			}
		}
	}
	return out, total
}

func inc(idx []int, base int) bool {
	for i := len(idx) - 1; i >= 0; i-- {
		idx[i]++
		if idx[i] < base {
			return true
		}
		idx[i] = 0
	}
	return false
}

func maxInt(a, b int) int {
	if a > b {
		return a
	}
	return b
}

// cellSize is the number of leaves of the case's complete cell (including
// the discarded separator draw Entropy() makes), or -1 if unbounded.
func (w WLCase) cellSize() int64 {
	kept, _ := ref.Normalise(w.Words)
	seps, _, retry := w.sepModel()
	if retry {
		return -1
	}
	caps, _ := capSets(w.Cap, w.Length)
	n := int64(len(caps))
	if w.Cap == "one" {
		n = int64(w.Length)
	}
	for i := 0; i < w.Length; i++ {
		n *= int64(len(kept))
	}
	// separator draws: one per gap plus one discarded, each over the
	// separator's own alphabet (>= number of values)
	for i := 0; i < w.Length; i++ {
		n *= int64(len(seps))
	}
	return n
}

// wlEntropyModel is the documented entropy of the case.
func (w WLCase) entropyModel() float64 {
	kept, uncap := ref.Normalise(w.Words)
	_, se, _ := w.sepModel()
	if w.Sep.Kind == "custom0" {
		se = 0
	} else if w.Sep.Kind == "customMixed" {
		se = 1
	} else if w.Sep.Kind == "SFDigits1+char" {
		se = math.Log2(10)
	} else if w.Sep.Kind == "sf" || presetModel[w.Sep.Kind].Length > 0 {
		// separator functions report the entropy of their own recipe
		var cr ref.CharRecipe
		if w.Sep.Kind == "sf" {
			cr = *w.Sep.Recipe
		} else {
			cr = presetModel[w.Sep.Kind]
		}
		if cr.Length >= 1 && len(cr.Alphabet()) > 0 && cr.Count().Sign() > 0 && !sepRefused(cr) {
			se = ref.Log2Big(cr.Count())
		} else {
			se = 0
		}
	}
	return ref.WLEntropy(len(kept), w.Length, w.Cap, uncap, se)
}

// standard word lists of the explored alphabet (§2.3 of DESIGN.md)
var wlLists = [][]string{
	{"ab"},
	{"ab", "cd"},
	{"ab", "cd", "efg"},
	{"ab", "cd", "efg", "hi", "jk"},
	{"Polish", "polish", "ab"},
	{"Ab", "cd"},
	{"4", "正確", "ab"},
	{"éa", "Éa", "b"},
	{"x-y", "ab"},
	{"ab", "ab", "cd", "ab"},
	// title-casing corner cases: underscore, apostrophes, inner separators,
	// combining marks, non-decimal digits, a digraph with its own title case
	{"snake_case", "l’eau", "m²x"},
	{"re\u0301sume\u0301", "o'neil", "new-york", "ǆungla"},
	// twins whose title form differs beyond the first letter / is not upper case
	{"new-york", "New-York", "ab"},
	{"ǆep", "ǅep", "b"},
	// lower-case letters that have no title-case form: uncapitalisable
	{"ßx", "ﬁsh", "ab", "cd"},
	// words that differ only in white space at their edges or inside (a word
	// file split on "\n" keeps "\r"): distinct words, each kept as supplied
	{"alpha", "alpha ", " alpha", "be\r"},
	{"a b", "a\tb", "ab", "\u3000x"},
}

var wlSchemes = []string{"none", "first", "all", "one", "random"}

func wlSeps() []Sep {
	return []Sep{
		{Kind: "none"},
		{Kind: "char", Char: "-"},
		{Kind: "char", Char: "¡"},
		{Kind: "SFNone"},
		{Kind: "SFDigits1"},
		{Kind: "SFSymbols"},
		{Kind: "sf", Recipe: &ref.CharRecipe{Length: 1, AllowChars: "ab"}},
		{Kind: "sf", Recipe: &ref.CharRecipe{Length: 2, AllowChars: "xé"}},
		{Kind: "sf", Recipe: &ref.CharRecipe{Length: 0, AllowChars: "ab"}},
		{Kind: "SFDigitsNoAmbiguous1"},
		// refused by Generate (1 of 13 characters satisfies it... p = 3/33) yet Entropy() > 0: separator is "" and must count 0 bits
		{Kind: "sf", Recipe: &ref.CharRecipe{Length: 1, AllowChars: "abcdefghijklmnopqrstuvwxyzABCD", RequireSets: []string{"123"}}},
		{Kind: "custom0", Recipe: &ref.CharRecipe{Length: 1, AllowChars: "xy"}},
		{Kind: "customMixed"},
		{Kind: "SFNone+char"},
		{Kind: "SFDigits1+char"},
	}
}

// wlCases enumerates the wordlist configuration set with cells of at most
// maxLeaves leaves.
func wlCases(maxLeaves int64, lengths []int) []WLCase {
	var out []WLCase
	for _, L := range lengths {
		for _, ws := range wlLists {
			for _, cp := range wlSchemes {
				for _, sp := range wlSeps() {
					w := WLCase{Words: ws, Length: L, Cap: cp, Sep: sp}
					if n := w.cellSize(); n > 0 && n <= maxLeaves {
						out = append(out, w)
					}
				}
			}
		}
	}
	return out
}

// wlCell explores the complete cell of a case.
func wlCell(w WLCase, maxLeaves int64, visit func(l *Leaf)) (*Dist, CellStats, error) {
	r, err := w.build()
	if err != nil {
		return nil, CellStats{}, err
	}
	d := newDist()
	st := exploreCell(r.Generate, CellOpt{DepthCut: 64, Fallback: 2, MaxMenu: 20000, MaxLeaves: maxLeaves, Dev: -1}, func(l *Leaf) {
		d.add(l)
		if visit != nil {
			visit(l)
		}
	})
	return d, st, nil
}

func sortedKeys(m map[string]*big.Rat) []string {
	out := make([]string, 0, len(m))
	for k := range m {
		out = append(out, k)
	}
	sort.Strings(out)
	return out
}
