// Command check runs one property's check: `check <ID> --tier quick|thorough`
// is the parent (spawns worker shards of itself, merges, writes evidence);
// with --shard it is a worker; with --replay it re-runs one recorded case.
package main

import (
	"flag"
	"fmt"
	"os"
	"sort"

	"verif/harness/checks"
	"verif/harness/core"
)

func main() {
	if len(os.Args) < 2 {
		ids := checks.IDs()
		sort.Strings(ids)
		fmt.Fprintln(os.Stderr, "usage: check <ID> [--tier quick|thorough] [--replay file]; ids:", ids)
		os.Exit(2)
	}
	id := os.Args[1]
	fs := flag.NewFlagSet("check", flag.ExitOnError)
	tier := fs.String("tier", "quick", "quick or thorough")
	shard := fs.Int("shard", -1, "worker shard index (internal)")
	nshards := fs.Int("nshards", 16, "number of shards (internal)")
	out := fs.String("out", "", "shard result file (internal)")
	replay := fs.String("replay", "", "replay file")
	fs.Parse(os.Args[2:])
	if t := os.Getenv("VERIF_TIER"); t != "" && !isFlagSet(fs, "tier") {
		*tier = t
	}
	ch := checks.Get(id)
	if ch == nil {
		fmt.Fprintln(os.Stderr, "unknown check", id)
		os.Exit(2)
	}
	if *replay != "" {
		os.Exit(checks.Replay(ch, *replay))
	}
	if *shard >= 0 {
		seed := int64(0)
		fmt.Sscan(os.Getenv("VERIF_SEED"), &seed)
		core.RunShard(ch, *tier, *shard, *nshards, seed, *out)
		return
	}
	self, err := os.Executable()
	if err != nil {
		fmt.Fprintln(os.Stderr, err)
		os.Exit(3)
	}
	os.Exit(core.RunParent(ch, *tier, self, nil))
}

func isFlagSet(fs *flag.FlagSet, name string) bool {
	set := false
	fs.Visit(func(f *flag.Flag) {
		if f.Name == name {
			set = true
		}
	})
	return set
}
