// Command check runs one property's check: `check <ID> --tier quick|thorough`
// is the parent (spawns worker shards of itself, merges, writes evidence);
// with --shard it is a worker; with --replay it re-runs one recorded case.
package main

import (
	"flag"
	"fmt"
	"os"
	"os/exec"
	"sort"

	"verif/harness/instrument"

	"verif/harness/checks"
	"verif/harness/core"
)

func main() {
	if len(os.Args) < 2 {
		ids := checks.IDs()
		sort.Strings(ids)
		fmt.Fprintln(os.Stderr, "usage: check <ID> [--tier quick|thorough] [--replay file]; ids:", ids)
		os.Exit(2)
	}
	id := os.Args[1]
	fs := flag.NewFlagSet("check", flag.ExitOnError)
	tier := fs.String("tier", "quick", "quick or thorough")
	shard := fs.Int("shard", -1, "worker shard index (internal)")
	nshards := fs.Int("nshards", 16, "number of shards (internal)")
	out := fs.String("out", "", "shard result file (internal)")
	replay := fs.String("replay", "", "replay file")
	fs.Parse(os.Args[2:])
	if t := os.Getenv("VERIF_TIER"); t != "" && !isFlagSet(fs, "tier") {
		*tier = t
	}
	ch := checks.Get(id)
	if ch == nil {
		fmt.Fprintln(os.Stderr, "unknown check", id)
		os.Exit(2)
	}
	if *replay != "" {
		if ch.Build != "" && os.Getenv("VERIF_IN_REPLAY") == "" {
			// replays of instrumented checks need the instrumented worker
			bin, cleanup, err := buildInstrumented(ch.Build)
			if err != nil {
				fmt.Fprintln(os.Stderr, "HARNESS-ERROR:", err)
				if cleanup != nil {
					cleanup()
				}
				os.Exit(3)
			}
			env := os.Environ()
			if ch.Prepare != nil {
				e, c2, err := ch.Prepare(*tier)
				if err == nil {
					env = append(env, e...)
					if c2 != nil {
						defer c2()
					}
				}
			}
			cmd := exec.Command(bin, id, "--tier", *tier, "--replay", *replay)
			cmd.Env = append(env, "VERIF_IN_REPLAY=1")
			cmd.Stdout, cmd.Stderr = os.Stdout, os.Stderr
			err = cmd.Run()
			cleanup()
			if ee, ok := err.(*exec.ExitError); ok {
				os.Exit(ee.ExitCode())
			} else if err != nil {
				os.Exit(3)
			}
			os.Exit(0)
		}
		os.Exit(checks.Replay(ch, *replay))
	}
	if *shard >= 0 {
		seed := int64(0)
		fmt.Sscan(os.Getenv("VERIF_SEED"), &seed)
		core.RunShard(ch, *tier, *shard, *nshards, seed, *out)
		return
	}
	self, err := os.Executable()
	if err != nil {
		fmt.Fprintln(os.Stderr, err)
		os.Exit(3)
	}
	if ch.Build != "" {
		bin, cleanup, err := buildInstrumented(ch.Build)
		if cleanup != nil {
			defer cleanup()
		}
		if err != nil {
			fmt.Fprintln(os.Stderr, "HARNESS-ERROR:", err)
			if cleanup != nil {
				cleanup()
			}
			os.Exit(3)
		}
		self = bin
	}
	rc := core.RunParent(ch, *tier, self, nil)
	if ch.Build != "" {
		os.RemoveAll(stageDir)
	}
	os.Exit(rc)
}

var stageDir string

func repoDir() string {
	if d := os.Getenv("VERIF_REPO"); d != "" {
		return d
	}
	return "/repo"
}

// buildInstrumented instruments a scratch copy of /repo's current working
// tree, checks that the repository's own tests still pass on it, and builds
// the worker binary with -overlay (and -race for kind "race").
func buildInstrumented(kind string) (string, func(), error) {
	dir, err := os.MkdirTemp("", "verif-inst-")
	if err != nil {
		return "", nil, err
	}
	stageDir = dir
	cleanup := func() { os.RemoveAll(dir) }
	opt := instrument.Options{Repo: repoDir(), Out: dir, Points: kind == "race"}
	if kind == "race" {
		opt.Vsync = "/root/go/pkg/mod/github.com/deckarep/golang-set@v1.7.1/threadsafe.go"
	}
	rep, err := instrument.Run(opt)
	if err != nil {
		return "", cleanup, fmt.Errorf("instrumenting /repo: %v", err)
	}
	env := append(os.Environ(), "GOFLAGS=-mod=mod", "GOPROXY=off", "GOSUMDB=off", "GOTOOLCHAIN=local", "GOCACHE=/verif/.cache/go-build")
	// the rewrite must not change behaviour: /repo's own tests on the instrumented copy
	t := exec.Command("go", "test", "-tags", "verif", "-overlay", rep.Overlay, "-vet=off", "-count=1", "go.1password.io/spg")
	t.Dir = core.Root + "/harness"
	t.Env = env
	if out, err := t.CombinedOutput(); err != nil {
		// not fatal: a tree whose behaviour depends on map order may fail
		// its own tests under the canonical order; the check decides
		tail := string(out)
		if len(tail) > 600 {
			tail = tail[len(tail)-600:]
		}
		fmt.Printf("note: the repository's tests do not pass on the instrumented copy (canonical map order):\n%s\n", tail)
	}
	bin := core.Root + "/bin/check_" + kind
	args := []string{"build", "-tags", "verif", "-overlay", rep.Overlay}
	if kind == "race" {
		args = append(args, "-race")
		// scratch go.mod that also replaces golang-set by its vsync copy
		gm, err := os.ReadFile(core.Root + "/harness/go.mod")
		if err != nil {
			return "", cleanup, err
		}
		gm = append(gm, []byte("\nreplace github.com/deckarep/golang-set => "+rep.SetDir+"\n")...)
		if err := os.WriteFile(dir+"/go.mod", gm, 0o644); err != nil {
			return "", cleanup, err
		}
		gs, _ := os.ReadFile(core.Root + "/harness/go.sum")
		os.WriteFile(dir+"/go.sum", gs, 0o644)
		args = append(args, "-modfile="+dir+"/go.mod")
	}
	args = append(args, "-o", bin, "./cmd/check")
	b := exec.Command("go", args...)
	b.Dir = core.Root + "/harness"
	b.Env = env
	if out, err := b.CombinedOutput(); err != nil {
		return "", cleanup, fmt.Errorf("building the instrumented worker: %v\n%s", err, out)
	}
	fmt.Printf("instrumented: %d map ranges %v, %d points, files %v\n", len(rep.MapRanges), rep.MapRanges, rep.Points, rep.Files)
	return bin, cleanup, nil
}

func isFlagSet(fs *flag.FlagSet, name string) bool {
	set := false
	fs.Visit(func(f *flag.Flag) {
		if f.Name == name {
			set = true
		}
	})
	return set
}
