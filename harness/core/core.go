// Package core is the shared plumbing of the checks: sharding over worker
// processes, merging, evidence files, replay files, known findings.
package core

import (
	"encoding/json"
	"fmt"
	"os"
	"os/exec"
	"path/filepath"
	"sort"
	"strconv"
	"strings"
	"sync"
	"syscall"
	"time"
)

// Root is the /verif directory (or a snapshot of it: $VERIF_ROOT).
var Root = func() string {
	if r := os.Getenv("VERIF_ROOT"); r != "" {
		return r
	}
	return "/verif"
}()

// Violation is one failing case.
type Violation struct {
	Key    string      `json:"key"`    // stable identity of the failing input/call site (matched against known findings)
	Msg    string      `json:"msg"`    // what failed
	Replay interface{} `json:"replay"` // everything needed to re-run it
}

// Result is what one shard reports.
type Result struct {
	Counters   map[string]int64 `json:"counters"`
	Violations []Violation      `json:"violations"`
	NViol      int64            `json:"nviol"`
	Samples    []interface{}    `json:"samples"`
	Notes      []string         `json:"notes"`
	Incomplete []string         `json:"incomplete"` // reasons exhaustive=false
	Outcomes   map[string]bool  `json:"outcomes"`   // distinct observed outcomes (capped)
}

// Ctx is handed to a check's shard function.
type Ctx struct {
	ID       string
	Tier     string
	Shard    int
	NShards  int
	Seed     int64
	Deadline time.Time
	R        Result
	work     int
}

// Thorough reports whether the tier is "thorough".
func (c *Ctx) Thorough() bool { return c.Tier == "thorough" }

// Mine partitions a stream of work items round-robin over the shards.
func (c *Ctx) Mine() bool {
	i := c.work
	c.work++
	return i%c.NShards == c.Shard
}

// MineKey partitions by an explicit index.
func (c *Ctx) MineKey(i int) bool { return i%c.NShards == c.Shard }

// Count adds to a named counter.
func (c *Ctx) Count(name string, n int64) {
	if c.R.Counters == nil {
		c.R.Counters = map[string]int64{}
	}
	c.R.Counters[name] += n
}

// Max keeps the maximum in a named counter (prefix "max_").
func (c *Ctx) Max(name string, n int64) {
	if c.R.Counters == nil {
		c.R.Counters = map[string]int64{}
	}
	if n > c.R.Counters[name] {
		c.R.Counters[name] = n
	}
}

// Outcome records a distinct observed outcome (capped at 4096 per shard).
func (c *Ctx) Outcome(s string) {
	if c.R.Outcomes == nil {
		c.R.Outcomes = map[string]bool{}
	}
	if len(c.R.Outcomes) < 4096 {
		c.R.Outcomes[s] = true
	}
}

// Violation records a failing case. Only the first 20 per shard keep their
// replay data.
func (c *Ctx) Violation(key, msg string, replay interface{}) {
	c.R.NViol++
	if len(c.R.Violations) < 20 {
		c.R.Violations = append(c.R.Violations, Violation{key, msg, replay})
	}
}

// Sample keeps a few example cases for the evidence file.
func (c *Ctx) Sample(x interface{}) {
	if len(c.R.Samples) < 3 {
		c.R.Samples = append(c.R.Samples, x)
	}
}

// Note adds a free-text note.
func (c *Ctx) Note(f string, a ...interface{}) {
	if len(c.R.Notes) < 50 {
		c.R.Notes = append(c.R.Notes, fmt.Sprintf(f, a...))
	}
}

// Incomplete marks the run as not exhaustive, with a reason.
func (c *Ctx) Incomplete(f string, a ...interface{}) {
	if len(c.R.Incomplete) < 50 {
		c.R.Incomplete = append(c.R.Incomplete, fmt.Sprintf(f, a...))
	}
}

// Expired reports whether the internal deadline has passed.
func (c *Ctx) Expired() bool { return !c.Deadline.IsZero() && time.Now().After(c.Deadline) }

// Check describes one property's check.
type Check struct {
	ID     string
	Level  string // evidence level
	Rule   string // how cases are enumerated / what is non-trivial
	Assume []string
	// Run executes one shard.
	Run func(c *Ctx)
	// Shards returns the number of worker processes for a tier (0 = 16).
	Shards func(tier string) int
	// Budget is the internal deadline per tier (0 = none).
	Budget func(tier string) time.Duration
	// Build selects the worker binary: "" (plain verif build), "inst"
	// (instrumented overlay), "race" (instrumented overlay + -race).
	Build string
	// Prepare runs in the parent before the shards start (it may set
	// environment variables for them); the returned function cleans up.
	Prepare func(tier string) (env []string, cleanup func(), err error)
	// Finish may add cross-shard verdicts after merging.
	Finish func(m *Merged)
	// StatesKey/TransKey/TracesKey name the counters reported as
	// states/transitions/traces_validated_against_impl.
	StatesKey, TransKey, TracesKey, DistinctKey string
}

// Merged is the result of all shards.
type Merged struct {
	Result
	ID, Tier string
	Seed     int64
}

func merge(rs []Result) Result {
	var m Result
	m.Counters = map[string]int64{}
	m.Outcomes = map[string]bool{}
	for _, r := range rs {
		for k, v := range r.Counters {
			if strings.HasPrefix(k, "max_") {
				if v > m.Counters[k] {
					m.Counters[k] = v
				}
			} else {
				m.Counters[k] += v
			}
		}
		m.NViol += r.NViol
		m.Violations = append(m.Violations, r.Violations...)
		for _, s := range r.Samples {
			if len(m.Samples) < 6 {
				m.Samples = append(m.Samples, s)
			}
		}
		m.Notes = append(m.Notes, r.Notes...)
		m.Incomplete = append(m.Incomplete, r.Incomplete...)
		for k := range r.Outcomes {
			m.Outcomes[k] = true
		}
	}
	return m
}

// KnownFinding is an entry of /verif/known_findings.json.
type KnownFinding struct {
	Property string `json:"property"`
	Key      string `json:"key"`
	What     string `json:"what"`
}

type knownFile struct {
	Known []KnownFinding `json:"known"`
	Fixed []string       `json:"fixed"`
}

func loadKnown() []KnownFinding {
	b, err := os.ReadFile(filepath.Join(Root, "known_findings.json"))
	if err != nil {
		return nil
	}
	var k knownFile
	if json.Unmarshal(b, &k) != nil {
		return nil
	}
	return k.Known
}

// Startup, if set, runs in every worker before the check (calibration).
var Startup func()

// RunShard runs one shard in-process and writes its result to out.
func RunShard(ch *Check, tier string, shard, nshards int, seed int64, out string) {
	c := &Ctx{ID: ch.ID, Tier: tier, Shard: shard, NShards: nshards, Seed: seed}
	if ch.Budget != nil {
		if d := ch.Budget(tier); d > 0 {
			c.Deadline = time.Now().Add(d)
		}
	}
	t0 := time.Now()
	if Startup != nil {
		Startup()
	}
	ch.Run(c)
	ms := time.Since(t0).Milliseconds()
	c.Max("max_shard_wall_ms", ms)
	c.Count("sum_shard_wall_ms", ms)
	b, err := json.Marshal(c.R)
	if err != nil {
		fmt.Fprintln(os.Stderr, "marshal:", err)
		os.Exit(3)
	}
	if err := os.WriteFile(out, b, 0o644); err != nil {
		fmt.Fprintln(os.Stderr, err)
		os.Exit(3)
	}
}

// RunParent spawns the shards of a check (binary bin), merges, writes
// evidence and replay files and returns the process exit status.
func RunParent(ch *Check, tier, bin string, extraEnv []string) int {
	start := time.Now()
	seed := int64(0)
	if s := os.Getenv("VERIF_SEED"); s != "" {
		seed, _ = strconv.ParseInt(s, 10, 64)
	}
	n := 16
	if ch.Shards != nil {
		if k := ch.Shards(tier); k > 0 {
			n = k
		}
	}
	tmp, err := os.MkdirTemp("", "verif-"+ch.ID+"-")
	if err != nil {
		fmt.Fprintln(os.Stderr, err)
		return 3
	}
	defer os.RemoveAll(tmp)
	if ch.Prepare != nil {
		env, cleanup, err := ch.Prepare(tier)
		if err != nil {
			fmt.Fprintln(os.Stderr, "HARNESS-ERROR: prepare:", err)
			return 3
		}
		if cleanup != nil {
			defer cleanup()
		}
		for _, e := range env {
			if i := strings.IndexByte(e, '='); i > 0 {
				os.Setenv(e[:i], e[i+1:])
			}
		}
	}
	results := make([]Result, n)
	fails := make([]string, n)
	var wg sync.WaitGroup
	// at most 16 workers at a time: a check may ask for more shards than
	// that so that each worker process is short-lived (bounded memory)
	sem := make(chan struct{}, 16)
	for i := 0; i < n; i++ {
		wg.Add(1)
		go func(i int) {
			defer wg.Done()
			sem <- struct{}{}
			defer func() { <-sem }()
			out := filepath.Join(tmp, fmt.Sprintf("shard%d.json", i))
			cmd := exec.Command(bin, ch.ID, "--tier", tier, "--shard", strconv.Itoa(i), "--nshards", strconv.Itoa(n), "--out", out)
			cmd.Env = append(os.Environ(), extraEnv...)
			cmd.Env = append(cmd.Env, "VERIF_SEED="+strconv.FormatInt(seed, 10))
			logf := filepath.Join(tmp, fmt.Sprintf("shard%d.log", i))
			lf, _ := os.Create(logf)
			cmd.Stdout = lf
			cmd.Stderr = lf
			// a worker never outlives its parent, and never runs for ever
			cmd.SysProcAttr = &syscall.SysProcAttr{Pdeathsig: syscall.SIGKILL}
			limit := 45 * time.Minute
			if tier == "thorough" {
				limit = 6 * time.Hour
			}
			err := cmd.Start()
			if err == nil {
				done := make(chan error, 1)
				go func() { done <- cmd.Wait() }()
				select {
				case err = <-done:
				case <-time.After(limit):
					cmd.Process.Kill()
					<-done
					err = fmt.Errorf("worker exceeded %v (code under test does not terminate?)", limit)
				}
			}
			lf.Close()
			if err != nil {
				lb, _ := os.ReadFile(logf)
				if len(lb) > 4000 {
					lb = lb[len(lb)-4000:]
				}
				fails[i] = fmt.Sprintf("shard %d: %v\n%s", i, err, lb)
				return
			}
			b, err := os.ReadFile(out)
			if err != nil {
				fails[i] = fmt.Sprintf("shard %d: %v", i, err)
				return
			}
			if err := json.Unmarshal(b, &results[i]); err != nil {
				fails[i] = fmt.Sprintf("shard %d: %v", i, err)
			}
		}(i)
	}
	wg.Wait()
	for _, f := range fails {
		if f != "" {
			// a worker that died is a harness failure, not a verdict
			fmt.Fprintln(os.Stderr, "HARNESS-ERROR:", f)
			return 3
		}
	}
	m := &Merged{Result: merge(results), ID: ch.ID, Tier: tier, Seed: seed}
	if ch.Finish != nil {
		ch.Finish(m)
	}
	return Conclude(ch, m, time.Since(start))
}

// Conclude writes evidence/replays and prints the verdict lines.
func Conclude(ch *Check, m *Merged, wall time.Duration) int {
	known := loadKnown()
	isKnown := func(v Violation) *KnownFinding {
		for i := range known {
			if known[i].Property == ch.ID && known[i].Key == v.Key {
				return &known[i]
			}
		}
		return nil
	}
	sort.SliceStable(m.Violations, func(i, j int) bool { return m.Violations[i].Key < m.Violations[j].Key })
	exit := 0
	repDir := filepath.Join(Root, "replays", ch.ID)
	printedKnown := map[string]bool{}
	newViol := 0
	seenKeys := map[string]bool{}
	for _, v := range m.Violations {
		if k := isKnown(v); k != nil {
			if !printedKnown[k.Key] {
				printedKnown[k.Key] = true
				fmt.Printf("KNOWN-FINDING: property=%s %s\n", ch.ID, k.What)
			}
			continue
		}
		newViol++
		if seenKeys[v.Key] || len(seenKeys) >= 10 {
			continue
		}
		seenKeys[v.Key] = true
		os.MkdirAll(repDir, 0o755)
		name := filepath.Join(repDir, fmt.Sprintf("%s-%d.json", m.Tier, len(seenKeys)))
		b, _ := json.MarshalIndent(map[string]interface{}{"property": ch.ID, "key": v.Key, "msg": v.Msg, "replay": v.Replay}, "", " ")
		os.WriteFile(name, b, 0o644)
		fmt.Printf("VIOLATION property=%s replay=%s\n", ch.ID, name)
		fmt.Printf("  %s: %s\n", v.Key, v.Msg)
		exit = 1
	}
	unknownTotal := m.NViol
	if exit == 0 && m.NViol > int64(len(m.Violations)) {
		// violations beyond the per-shard cap whose keys we did not keep:
		// cannot be matched against known findings, so they count
		fmt.Printf("VIOLATION property=%s replay=%s\n", ch.ID, "(more violations than the per-shard cap; see evidence)")
		exit = 1
	}
	cov := map[string]interface{}{}
	keys := make([]string, 0, len(m.Counters))
	for k := range m.Counters {
		keys = append(keys, k)
	}
	sort.Strings(keys)
	for _, k := range keys {
		cov[k] = m.Counters[k]
	}
	get := func(k string, def int64) int64 {
		if k == "" {
			return def
		}
		return m.Counters[k]
	}
	execs := get(ch.TracesKey, m.Counters["executions"])
	cov["evaluations"] = execs
	distinct := int64(len(m.Outcomes))
	if ch.DistinctKey != "" {
		distinct = m.Counters[ch.DistinctKey]
	}
	cov["distinct_nontrivial"] = distinct
	cov["distinct_outcomes_observed"] = int64(len(m.Outcomes))
	cov["rule"] = ch.Rule
	cov["states"] = get(ch.StatesKey, m.Counters["nodes"])
	cov["transitions"] = get(ch.TransKey, m.Counters["edges"])
	cov["traces_validated_against_impl"] = execs
	samples := m.Samples
	if len(samples) == 0 {
		samples = []interface{}{"(none recorded)"}
	}
	cov["samples"] = samples
	cov["exhaustive"] = len(m.Incomplete) == 0
	if len(m.Incomplete) > 0 {
		cov["incomplete_reasons"] = dedup(m.Incomplete)
	}
	if len(m.Notes) > 0 {
		cov["notes"] = dedup(m.Notes)
	}
	cov["known_findings_matched"] = len(printedKnown)
	ev := map[string]interface{}{
		"property_id": ch.ID,
		"tier":        m.Tier,
		"seed":        m.Seed,
		"level":       ch.Level,
		"coverage":    cov,
		"assumptions": ch.Assume,
		"wall_s":      float64(int(wall.Seconds()*100)) / 100,
		"violations":  newViol,
	}
	_ = unknownTotal
	os.MkdirAll(filepath.Join(Root, "evidence"), 0o755)
	b, _ := json.MarshalIndent(ev, "", " ")
	if err := os.WriteFile(filepath.Join(Root, "evidence", ch.ID+".json"), b, 0o644); err != nil {
		fmt.Fprintln(os.Stderr, err)
		return 3
	}
	fmt.Printf("%s %s: executions=%d states=%v transitions=%v distinct=%d exhaustive=%v violations=%d wall=%.1fs\n",
		ch.ID, m.Tier, execs, cov["states"], cov["transitions"], distinct, len(m.Incomplete) == 0, newViol, wall.Seconds())
	return exit
}

func dedup(in []string) []string {
	seen := map[string]bool{}
	var out []string
	for _, s := range in {
		if !seen[s] {
			seen[s] = true
			out = append(out, s)
		}
	}
	return out
}
