// Package explore is the stateless depth-first explorer over environment
// answers: a choice point is any place where the harness decides what the
// implementation sees next (a random word, a map order, ...). Executions are
// enumerated in lexicographic order of their choice vectors with O(depth)
// memory; the default answer is choice 0 and a deviation is any other choice.
package explore

import "fmt"

// Chooser drives one execution and computes the next one.
type Chooser struct {
	prefix  []int
	Choices []int
	Menus   []int
	// Bound is the maximum number of deviations (non-zero choices) per
	// execution; negative means unlimited (complete product).
	Bound int
	// DepthCut, if > 0, is the number of leading choice points that are
	// branched; later points take the default and Cut reports it.
	DepthCut int

	// AllowFirstDev, if set, restricts the explored executions to those
	// whose first deviation is at a position it accepts (used to shard one
	// big tree over processes; the deviation-free execution is run by all).
	AllowFirstDev func(pos int) bool

	// statistics
	Executions int64
	Nodes      int64 // distinct choice points visited (tree nodes)
	Edges      int64 // distinct choices taken (tree edges)
	MaxDepth   int
	started    bool
}

// New returns a chooser with the given deviation bound (-1: unlimited).
func New(bound int) *Chooser { return &Chooser{Bound: bound} }

// Choose returns the answer for the current choice point, which has n
// alternatives (n >= 1).
func (c *Chooser) Choose(n int) int {
	if n < 1 {
		panic(fmt.Sprintf("explore: choice point with %d alternatives", n))
	}
	i := len(c.Choices)
	v := 0
	if i < len(c.prefix) {
		v = c.prefix[i]
		if v >= n {
			// replaying a prefix must see the same menus: hard error
			panic(fmt.Sprintf("explore: replay divergence at point %d: choice %d of %d", i, v, n))
		}
	}
	c.Choices = append(c.Choices, v)
	c.Menus = append(c.Menus, n)
	return v
}

// Prefix returns the choices the next execution must replay.
func (c *Chooser) Prefix() []int { return c.prefix }

// SetTrace records the choice points of an execution that was driven from
// outside (a schedule plan) instead of through Choose.
func (c *Chooser) SetTrace(choices, menus []int) {
	c.Choices = append(c.Choices[:0], choices...)
	c.Menus = append(c.Menus[:0], menus...)
}

// Depth is the number of choice points passed so far in this execution.
func (c *Chooser) Depth() int { return len(c.Choices) }

// PastCut reports whether the execution has passed the depth cut.
func (c *Chooser) PastCut() bool { return c.DepthCut > 0 && len(c.Choices) >= c.DepthCut }

// Begin must be called before each execution; it returns false when the
// space is exhausted.
func (c *Chooser) Begin() bool {
	if !c.started {
		c.started = true
		c.Choices = c.Choices[:0]
		c.Menus = c.Menus[:0]
		return true
	}
	// account for the execution just finished
	shared := len(c.prefix) - 1
	if shared < 0 {
		shared = 0
	}
	if len(c.Choices) < len(c.prefix) {
		panic(fmt.Sprintf("explore: replay divergence: execution ended after %d points, prefix has %d", len(c.Choices), len(c.prefix)))
	}
	c.Executions++
	c.Nodes += int64(len(c.Choices)-shared) + 1 // new choice points + the leaf
	c.Edges += int64(len(c.Choices) - shared)
	if len(c.Choices) > c.MaxDepth {
		c.MaxDepth = len(c.Choices)
	}
	// find the next prefix
	dev := 0
	devBefore := make([]int, len(c.Choices))
	for i, v := range c.Choices {
		devBefore[i] = dev
		if v != 0 {
			dev++
		}
	}
	for i := len(c.Choices) - 1; i >= 0; i-- {
		if c.DepthCut > 0 && i >= c.DepthCut {
			continue
		}
		if c.Choices[i]+1 >= c.Menus[i] {
			continue
		}
		if c.Bound >= 0 && devBefore[i]+1 > c.Bound {
			continue
		}
		if c.AllowFirstDev != nil && devBefore[i] == 0 && c.Choices[i] == 0 && !c.AllowFirstDev(i) {
			continue
		}
		c.prefix = append(c.prefix[:0], c.Choices[:i]...)
		c.prefix = append(c.prefix, c.Choices[i]+1)
		c.Choices = c.Choices[:0]
		c.Menus = c.Menus[:0]
		return true
	}
	return false
}

// Replay returns a chooser that runs exactly one execution with the given
// choices.
func Replay(choices []int) *Chooser {
	return &Chooser{prefix: append([]int(nil), choices...), Bound: -1}
}

// Perms returns all permutations of 0..n-1 in lexicographic order.
func Perms(n int) [][]int {
	var out [][]int
	p := make([]int, n)
	used := make([]bool, n)
	var rec func(k int)
	rec = func(k int) {
		if k == n {
			out = append(out, append([]int(nil), p...))
			return
		}
		for i := 0; i < n; i++ {
			if !used[i] {
				used[i] = true
				p[k] = i
				rec(k + 1)
				used[i] = false
			}
		}
	}
	rec(0)
	return out
}
