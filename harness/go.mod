module verif/harness

go 1.23

require (
	github.com/deckarep/golang-set v1.7.1
	go.1password.io/spg v0.0.0
)

replace go.1password.io/spg => /repo
