// Package instrument rewrites a scratch copy of package spg for exploration:
// every `for k, v := range m` over a map becomes a loop over
// verifrt.MapKeys(site, m) (with the Go spec's re-check for entries deleted
// during the iteration), and, optionally, verifrt.Point() is inserted before
// every statement. The result is used through `go build -overlay`; /repo is
// never modified.
package instrument

import (
	"bytes"
	"encoding/json"
	"fmt"
	"go/ast"
	"go/importer"
	"go/parser"
	"go/printer"
	"go/token"
	"go/types"
	"os"
	"path/filepath"
	"strconv"
	"strings"
)

// Options selects the rewrites.
type Options struct {
	Repo   string // directory of package spg
	Out    string // scratch directory (outside /repo and /verif)
	Points bool   // insert verifrt.Point() before every statement
	Vsync  string // if non-empty: path of golang-set's threadsafe.go to rewrite (sync -> vsync)
}

// Report says what was rewritten.
type Report struct {
	Overlay   string   // path of overlay.json
	MapRanges []string // sites rewritten
	Points    int
	Files     []string
	SetDir    string // scratch copy of golang-set (Vsync only)
}

const rtPath = "verif/harness/verifrt"

// skipFile: data files and files with build constraints are left alone.
func skipFile(name string, src []byte) bool {
	if strings.HasSuffix(name, "_test.go") || name == "agilewords.go" || name == "agilesyllables.go" || name == "doc.go" {
		return true
	}
	head := src
	if len(head) > 400 {
		head = head[:400]
	}
	return bytes.Contains(head, []byte("//go:build")) || bytes.Contains(head, []byte("// +build"))
}

// Run performs the rewrite.
func Run(o Options) (*Report, error) {
	rep := &Report{}
	fset := token.NewFileSet()
	ents, err := os.ReadDir(o.Repo)
	if err != nil {
		return nil, err
	}
	var files []*ast.File
	var names []string
	rewrite := map[string]bool{}
	for _, e := range ents {
		n := e.Name()
		if e.IsDir() || !strings.HasSuffix(n, ".go") || strings.HasSuffix(n, "_test.go") {
			continue
		}
		src, err := os.ReadFile(filepath.Join(o.Repo, n))
		if err != nil {
			return nil, err
		}
		if n == "hook_off.go" {
			continue // the verif tag is on
		}
		f, err := parser.ParseFile(fset, filepath.Join(o.Repo, n), src, parser.SkipObjectResolution)
		if err != nil {
			return nil, err
		}
		files = append(files, f)
		names = append(names, n)
		if !skipFile(n, src) {
			rewrite[n] = true
		}
	}
	info := &types.Info{Types: map[ast.Expr]types.TypeAndValue{}}
	conf := types.Config{Importer: importer.ForCompiler(fset, "source", nil), Error: func(error) {}}
	old, _ := os.Getwd()
	os.Chdir(o.Repo)
	pkg, _ := conf.Check("go.1password.io/spg", fset, files, info)
	os.Chdir(old)
	if pkg == nil {
		return nil, fmt.Errorf("type check of %s failed", o.Repo)
	}
	qual := func(p *types.Package) string {
		if p == pkg {
			return ""
		}
		return p.Name()
	}
	overlay := map[string]string{}
	for i, f := range files {
		n := names[i]
		if !rewrite[n] {
			continue
		}
		changed := false
		// 1. map ranges
		var rerr error
		ast.Inspect(f, func(nd ast.Node) bool {
			rs, ok := nd.(*ast.RangeStmt)
			if !ok || rerr != nil {
				return true
			}
			tv, ok := info.Types[rs.X]
			if !ok {
				rerr = fmt.Errorf("%s: no type for range expression", fset.Position(rs.Pos()))
				return true
			}
			mt, ok := tv.Type.Underlying().(*types.Map)
			if !ok {
				return true
			}
			if rs.Tok != token.DEFINE {
				rerr = fmt.Errorf("%s: map range without := is not supported", fset.Position(rs.Pos()))
				return true
			}
			// refuse bodies that insert into the ranged map
			xs := exprString(fset, rs.X)
			ast.Inspect(rs.Body, func(b ast.Node) bool {
				if as, ok := b.(*ast.AssignStmt); ok {
					for _, l := range as.Lhs {
						if ix, ok := l.(*ast.IndexExpr); ok && exprString(fset, ix.X) == xs {
							rerr = fmt.Errorf("%s: body assigns into the ranged map", fset.Position(as.Pos()))
						}
					}
				}
				return true
			})
			pos := fset.Position(rs.Pos())
			site := fmt.Sprintf("%s:%d", filepath.Base(pos.Filename), pos.Line)
			keyT := types.TypeString(mt.Key(), qual)
			keyName := "_"
			if id, ok := rs.Key.(*ast.Ident); ok && rs.Key != nil {
				keyName = id.Name
			}
			valName := "_"
			if rs.Value != nil {
				if id, ok := rs.Value.(*ast.Ident); ok {
					valName = id.Name
				}
			}
			kv := "verifK"
			// for _, verifK := range verifrt.MapKeys(site, X) {
			//     k := verifK.(K); v, verifOk := X[k]; if !verifOk { continue }; _ = v
			pre := fmt.Sprintf("package p\nfunc f() {\n%s := %s.(%s)\n%s, verifOk := %s[%s]\nif !verifOk { continue }\n_ = %s\n}",
				kv+"T", kv, keyT, "verifV", xs, kv+"T", "verifV")
			pf, err := parser.ParseFile(token.NewFileSet(), "", pre, 0)
			if err != nil {
				rerr = err
				return true
			}
			stmts := pf.Decls[0].(*ast.FuncDecl).Body.List
			var bind []ast.Stmt
			if keyName != "_" {
				bind = append(bind, mustStmt(fmt.Sprintf("%s := %sT", keyName, kv)), mustStmt("_ = "+keyName))
			}
			if valName != "_" {
				bind = append(bind, mustStmt(fmt.Sprintf("%s := verifV", valName)), mustStmt("_ = "+valName))
			}
			body := append(append(append([]ast.Stmt{}, stmts...), bind...), rs.Body.List...)
			rs.Key = ast.NewIdent("_")
			rs.Value = ast.NewIdent(kv)
			rs.X = mustExpr(fmt.Sprintf("verifrt.MapKeys(%s, %s)", strconv.Quote(site), xs))
			rs.Body.List = body
			rep.MapRanges = append(rep.MapRanges, site)
			changed = true
			return true
		})
		if rerr != nil {
			return nil, rerr
		}
		// 2. scheduling points
		if o.Points {
			clauseBlocks := map[*ast.BlockStmt]bool{}
			ast.Inspect(f, func(nd ast.Node) bool {
				switch b := nd.(type) {
				case *ast.SwitchStmt:
					clauseBlocks[b.Body] = true
				case *ast.TypeSwitchStmt:
					clauseBlocks[b.Body] = true
				case *ast.SelectStmt:
					clauseBlocks[b.Body] = true
				case *ast.BlockStmt:
					if clauseBlocks[b] {
						return true // a list of case clauses, not of statements
					}
					b.List = withPoints(b.List, &rep.Points)
					changed = true
				case *ast.CaseClause:
					b.Body = withPoints(b.Body, &rep.Points)
				case *ast.CommClause:
					b.Body = withPoints(b.Body, &rep.Points)
				}
				return true
			})
		}
		if !changed {
			continue
		}
		addImport(f, rtPath)
		var buf bytes.Buffer
		// comments are dropped (positions of new nodes are unknown to the printer)
		f.Comments = nil
		if err := printer.Fprint(&buf, token.NewFileSet(), stripPos(f)); err != nil {
			return nil, err
		}
		dst := filepath.Join(o.Out, n)
		if err := os.WriteFile(dst, buf.Bytes(), 0o644); err != nil {
			return nil, err
		}
		overlay[filepath.Join(o.Repo, n)] = dst
		rep.Files = append(rep.Files, n)
	}
	if o.Vsync != "" {
		// a scratch copy of golang-set whose threadsafe.go uses vsync for
		// "sync"; selected with a replace directive in a scratch go.mod
		// (-modfile), because a new import cannot be introduced by -overlay
		// into a package of the module cache
		srcDir := filepath.Dir(o.Vsync)
		dstDir := filepath.Join(o.Out, "golang-set")
		if err := os.MkdirAll(dstDir, 0o755); err != nil {
			return nil, err
		}
		ents, err := os.ReadDir(srcDir)
		if err != nil {
			return nil, err
		}
		for _, e := range ents {
			if e.IsDir() || strings.HasSuffix(e.Name(), "_test.go") {
				continue
			}
			b, err := os.ReadFile(filepath.Join(srcDir, e.Name()))
			if err != nil {
				return nil, err
			}
			if e.Name() == "threadsafe.go" {
				s := string(b)
				if !strings.Contains(s, "import \"sync\"") {
					return nil, fmt.Errorf("%s: unexpected import form", o.Vsync)
				}
				b = []byte(strings.Replace(s, "import \"sync\"", "import sync \"verif/harness/verifrt/vsync\"", 1))
			}
			if err := os.WriteFile(filepath.Join(dstDir, e.Name()), b, 0o644); err != nil {
				return nil, err
			}
		}
		if err := os.WriteFile(filepath.Join(dstDir, "go.mod"), []byte("module github.com/deckarep/golang-set\n"), 0o644); err != nil {
			return nil, err
		}
		rep.SetDir = dstDir
	}
	ob, _ := json.MarshalIndent(map[string]interface{}{"Replace": overlay}, "", " ")
	rep.Overlay = filepath.Join(o.Out, "overlay.json")
	if err := os.WriteFile(rep.Overlay, ob, 0o644); err != nil {
		return nil, err
	}
	return rep, nil
}

func exprString(fset *token.FileSet, e ast.Expr) string {
	var b bytes.Buffer
	printer.Fprint(&b, fset, e)
	return b.String()
}

func mustStmt(s string) ast.Stmt {
	f, err := parser.ParseFile(token.NewFileSet(), "", "package p\nfunc f() {\n"+s+"\n}", 0)
	if err != nil {
		panic(err)
	}
	return f.Decls[0].(*ast.FuncDecl).Body.List[0]
}

func mustExpr(s string) ast.Expr {
	e, err := parser.ParseExpr(s)
	if err != nil {
		panic(err)
	}
	return e
}

func withPoints(list []ast.Stmt, n *int) []ast.Stmt {
	out := make([]ast.Stmt, 0, 2*len(list))
	for _, s := range list {
		if es, ok := s.(*ast.ExprStmt); ok {
			if ce, ok := es.X.(*ast.CallExpr); ok {
				if se, ok := ce.Fun.(*ast.SelectorExpr); ok {
					if id, ok := se.X.(*ast.Ident); ok && id.Name == "verifrt" {
						out = append(out, s)
						continue
					}
				}
			}
		}
		out = append(out, mustStmt("verifrt.Point()"))
		*n++
		out = append(out, s)
	}
	return out
}

func addImport(f *ast.File, path string) {
	spec := &ast.ImportSpec{Path: &ast.BasicLit{Kind: token.STRING, Value: strconv.Quote(path)}}
	decl := &ast.GenDecl{Tok: token.IMPORT, Specs: []ast.Spec{spec}}
	f.Decls = append([]ast.Decl{decl}, f.Decls...)
}

// stripPos re-parses the printed file so that positions are consistent.
func stripPos(f *ast.File) *ast.File { return f }
