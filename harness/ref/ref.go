// Package ref is the reference model: small, boring, written from the
// documentation and the property statements, with no import of spg.
package ref

import (
	"math"
	"math/big"
	"sort"
	"strings"
)

// Class flags (values documented by spg: Uppers, Lowers, Digits, Symbols, Ambiguous = 1,2,4,8,16).
const (
	Uppers uint32 = 1 << iota
	Lowers
	Digits
	Symbols
	Ambiguous
	Letters = Uppers | Lowers
	All     = Letters | Digits | Symbols
)

// ClassOrder lists the single-class flags.
var ClassOrder = []uint32{Uppers, Lowers, Digits, Symbols, Ambiguous}

// ClassChars are the documented character classes.
var ClassChars = map[uint32]string{
	Uppers:    "ABCDEFGHIJKLMNOPQRSTUVWXYZ",
	Lowers:    "abcdefghijklmnopqrstuvwxyz",
	Digits:    "0123456789",
	Symbols:   "!@.-_*",
	Ambiguous: "0O1Il5S",
}

// CharRecipe mirrors the public fields of spg.CharRecipe.
type CharRecipe struct {
	Length                  int
	Allow, Require, Exclude uint32
	AllowChars              string
	RequireSets             []string
	ExcludeChars            string
}

// Chars splits a string into characters (UTF-8 sequences or single invalid bytes).
func Chars(s string) []string {
	if s == "" {
		return nil
	}
	return strings.Split(s, "")
}

func classes(f uint32) string {
	out := ""
	for _, c := range ClassOrder {
		if f&c != 0 {
			out += ClassChars[c]
		}
	}
	return out
}

func toSet(s string) map[string]bool {
	m := map[string]bool{}
	for _, c := range Chars(s) {
		m[c] = true
	}
	return m
}

func sorted(m map[string]bool) []string {
	out := make([]string, 0, len(m))
	for k := range m {
		out = append(out, k)
	}
	sort.Strings(out)
	return out
}

// Excluded is the set of excluded characters.
func (r CharRecipe) Excluded() map[string]bool { return toSet(r.ExcludeChars + classes(r.Exclude)) }

// RawReq lists every stated requirement (non-empty custom sets, then required
// classes) after exclusion; entries may be empty (emptied by exclusion).
func (r CharRecipe) RawReq() [][]string {
	ex := r.Excluded()
	var out [][]string
	add := func(s string) {
		m := toSet(s)
		for k := range ex {
			delete(m, k)
		}
		out = append(out, sorted(m))
	}
	for _, s := range r.RequireSets {
		if len(s) > 0 {
			add(s)
		}
	}
	for _, c := range ClassOrder {
		if r.Require&c != 0 {
			add(ClassChars[c])
		}
	}
	return out
}

// Req is RawReq without the sets that exclusion emptied.
func (r CharRecipe) Req() [][]string {
	var out [][]string
	for _, s := range r.RawReq() {
		if len(s) > 0 {
			out = append(out, s)
		}
	}
	return out
}

// EmptiedReq reports whether exclusion emptied a stated requirement.
func (r CharRecipe) EmptiedReq() bool { return len(r.Req()) != len(r.RawReq()) }

// Alphabet is the sorted, duplicate-free set of characters that may appear.
func (r CharRecipe) Alphabet() []string {
	m := toSet(r.AllowChars + classes(r.Allow) + strings.Join(r.RequireSets, "") + classes(r.Require))
	for k := range r.Excluded() {
		delete(m, k)
	}
	return sorted(m)
}

// Valid reports whether the character sequence is a password of the recipe.
func (r CharRecipe) Valid(chars []string) bool {
	if len(chars) != r.Length {
		return false
	}
	ab := map[string]bool{}
	for _, c := range r.Alphabet() {
		ab[c] = true
	}
	have := map[string]bool{}
	for _, c := range chars {
		if !ab[c] {
			return false
		}
		have[c] = true
	}
	for _, set := range r.Req() {
		ok := false
		for _, c := range set {
			if have[c] {
				ok = true
				break
			}
		}
		if !ok {
			return false
		}
	}
	return true
}

// CountWith is the number of strings of the recipe's length over its alphabet
// that meet every set in req: direct inclusion-exclusion over subsets T of
// req of the strings that avoid the union of T.
func (r CharRecipe) CountWith(req [][]string) *big.Int {
	ab := r.Alphabet()
	n := len(ab)
	total := new(big.Int)
	if r.Length < 0 {
		return total
	}
	k := len(req)
	L := big.NewInt(int64(r.Length))
	for mask := 0; mask < 1<<uint(k); mask++ {
		u := map[string]bool{}
		bits := 0
		for i := 0; i < k; i++ {
			if mask>>uint(i)&1 == 1 {
				bits++
				for _, c := range req[i] {
					u[c] = true
				}
			}
		}
		term := new(big.Int).Exp(big.NewInt(int64(n-len(u))), L, nil)
		if bits%2 == 1 {
			total.Sub(total, term)
		} else {
			total.Add(total, term)
		}
	}
	return total
}

// Count is the number of valid passwords (emptied requirements are void).
func (r CharRecipe) Count() *big.Int { return r.CountWith(r.Req()) }

// CountBrute enumerates all |alphabet|^Length strings (small recipes only).
func (r CharRecipe) CountBrute() int64 {
	ab := r.Alphabet()
	if r.Length < 1 {
		return 0
	}
	idx := make([]int, r.Length)
	chars := make([]string, r.Length)
	var n int64
	if len(ab) == 0 {
		return 0
	}
	for {
		for i, j := range idx {
			chars[i] = ab[j]
		}
		if r.Valid(chars) {
			n++
		}
		i := r.Length - 1
		for i >= 0 {
			idx[i]++
			if idx[i] < len(ab) {
				break
			}
			idx[i] = 0
			i--
		}
		if i < 0 {
			return n
		}
	}
}

// Log2Big returns log2 of a positive big integer to float64 precision.
func Log2Big(x *big.Int) float64 {
	if x.Sign() <= 0 {
		if x.Sign() == 0 {
			return math.Inf(-1)
		}
		return math.NaN()
	}
	bl := x.BitLen()
	if bl <= 64 {
		return math.Log2(float64(x.Uint64()))
	}
	shift := uint(bl - 64)
	top := new(big.Int).Rsh(x, shift)
	return math.Log2(float64(top.Uint64())) + float64(shift)
}

// Ulp32 is the spacing of float32 values near x.
func Ulp32(x float64) float64 {
	f := float32(math.Abs(x))
	if f < 1 {
		f = 1
	}
	next := math.Nextafter32(f, float32(math.Inf(1)))
	return float64(next - f)
}

// ---------- word lists ----------

// Title is the title-casing used for capitalisation.
func Title(w string) string { return strings.Title(w) }

// Normalise returns the kept words (sorted) of an input list and how many of
// them do not change under title-casing.
func Normalise(list []string) (kept []string, uncap int) {
	set := map[string]bool{}
	for _, w := range list {
		set[w] = true
	}
	drop := map[string]bool{}
	for w := range set {
		if t := Title(w); t != w && set[t] {
			drop[t] = true
		}
	}
	for w := range set {
		if !drop[w] {
			kept = append(kept, w)
			if Title(w) == w {
				uncap++
			}
		}
	}
	sort.Strings(kept)
	return kept, uncap
}

// TitleCollision reports whether two kept words share a title-cased form
// (lists outside the premise of C04/C06).
func TitleCollision(kept []string) bool {
	seen := map[string]string{}
	for _, w := range kept {
		t := Title(w)
		if o, ok := seen[t]; ok && o != w {
			return true
		}
		seen[t] = w
		if t != w {
			// a kept word equal to another's title form
			for _, x := range kept {
				if x == t {
					return true
				}
			}
		}
	}
	return false
}

// WLEntropy is the documented entropy of a wordlist recipe.
func WLEntropy(size, length int, scheme string, uncap int, sepEntropy float64) float64 {
	e := float64(length) * math.Log2(float64(size))
	if uncap == 0 {
		switch scheme {
		case "random":
			e += float64(length)
		case "one":
			e += math.Log2(float64(length))
		}
	}
	e += float64(length-1) * sepEntropy
	return e
}

// ---------- token index ----------

// Tok is a token: a value and its type byte (1 = atom, 0 = separator).
type Tok struct {
	V string
	T byte
}

// Atom reports whether the token is an atom.
func (t Tok) Atom() bool { return t.T == 1 }

// Decode is the reference decoder of the documented index format. ok=false
// means the index must be rejected with an error.
func Decode(pw string, idx []byte) (toks []Tok, ok bool) {
	chars := Chars(pw)
	if len(idx) == 0 {
		return nil, false
	}
	pos := 0
	take := func(n int) (string, bool) {
		if pos+n > len(chars) {
			return "", false
		}
		s := strings.Join(chars[pos:pos+n], "")
		pos += n
		return s, true
	}
	switch idx[0] {
	case 0:
		for _, c := range chars {
			toks = append(toks, Tok{c, 1})
		}
		return toks, true
	case 1, 2:
		for i, l := range idx[1:] {
			s, ok := take(int(l))
			if !ok {
				return nil, false
			}
			ty := byte(1)
			if idx[0] == 2 && i%2 == 1 {
				ty = 0
			}
			toks = append(toks, Tok{s, ty})
		}
		return toks, true
	case 3:
		if (len(idx)-1)%2 != 0 {
			return nil, false
		}
		for i := 1; i < len(idx); i += 2 {
			s, ok := take(int(idx[i]))
			if !ok {
				return nil, false
			}
			toks = append(toks, Tok{s, idx[i+1]})
		}
		return toks, true
	}
	return nil, false
}

// IndexSize is the documented size of the index of a token sequence whose
// tokens all have 1..255 characters.
func IndexSize(toks []Tok) int {
	n := len(toks)
	allAtoms, allOne := true, true
	for _, t := range toks {
		if !t.Atom() {
			allAtoms = false
		}
		if len(Chars(t.V)) != 1 {
			allOne = false
		}
	}
	if allAtoms && allOne {
		return 1
	}
	if allAtoms {
		return n + 1
	}
	alt := n%2 == 1
	for i, t := range toks {
		if t.Atom() != (i%2 == 0) || t.T > 1 {
			alt = false
		}
	}
	if alt {
		return n + 1
	}
	return 2*n + 1
}
