// Package sched is a controlled scheduler that the Go race detector can see
// through. Managed threads are goroutines locked to OS threads; exactly one
// runs at a time. The hand-off is a raw futex on a word that is only touched
// from //go:norace functions, so it orders the threads in real time but
// creates NO happens-before edge for the race detector: two managed threads
// that touch the same variable without real synchronisation are reported,
// under every explored schedule. Everything here that is shared between
// managed threads is accessed only from //go:norace functions and uses no
// sync/atomic/channel operation.
//
// A schedule is a plan: the choice to take at each scheduling point (0 = keep
// running the current thread / lowest runnable id); past the end of the plan
// the choice is 0. Menus are logged so that the explorer can enumerate the
// alternatives afterwards (stateless DFS, deviation-bounded).
package sched

import (
	"runtime"
	"syscall"
	"unsafe"
)

const (
	maxThreads = 4
	maxPoints  = 1 << 16

	stRunnable = 0
	stBlocked  = 1
	stDone     = 2
)

type state struct {
	turn    int32 // id of the thread that may run; -1 = nobody (main waits for this)
	_       [60]byte
	active  bool
	n       int32
	status  [maxThreads]int32
	blocked [maxThreads]uintptr
	tid     [maxThreads]int32
	step    int32
	plan    []int16
	menus   []int16 // number of alternatives at each point
	taken   []int16 // choice taken at each point
	kinds   []int8  // 0 statement point, 1 block, 2 finish/start
	// verdict flags
	Overflow bool
	Diverged bool
	Deadlock bool
	Switches int32
	lastStep int32
}

var s state

func init() {
	s.menus = make([]int16, maxPoints)
	s.taken = make([]int16, maxPoints)
	s.kinds = make([]int8, maxPoints)
	s.turn = -1
}

//go:norace
func futexWait(addr *int32, val int32) {
	syscall.Syscall6(syscall.SYS_FUTEX, uintptr(unsafe.Pointer(addr)), 0|128 /*FUTEX_WAIT|PRIVATE*/, uintptr(val), 0, 0, 0)
}

//go:norace
func futexWakeAll(addr *int32) {
	syscall.Syscall6(syscall.SYS_FUTEX, uintptr(unsafe.Pointer(addr)), 1|128 /*FUTEX_WAKE|PRIVATE*/, 1<<30, 0, 0, 0)
}

//go:norace
func gettid() int32 {
	r, _, _ := syscall.RawSyscall(syscall.SYS_GETTID, 0, 0, 0)
	return int32(r)
}

//go:norace
func waitTurn(me int32) {
	for {
		t := s.turn
		if t == me {
			return
		}
		futexWait(&s.turn, t)
	}
}

//go:norace
func setTurn(next int32) {
	s.turn = next
	futexWakeAll(&s.turn)
}

// CurrentID returns the id of the managed thread that is running, or -1.
//
//go:norace
func CurrentID() int32 {
	if !s.active {
		return -1
	}
	return s.turn
}

// me returns the id of the calling managed thread, or -1 if the caller is
// not the managed thread whose turn it is (a helper goroutine, or main).
//
//go:norace
func me() int32 {
	if !s.active {
		return -1
	}
	t := s.turn
	if t < 0 || gettid() != s.tid[t] {
		return -1
	}
	return t
}

// choose logs a choice point with n alternatives and returns the planned choice.
//
//go:norace
func choose(n int32, kind int8) int32 {
	k := s.step
	s.step++
	c := int32(0)
	if int(k) < len(s.plan) {
		c = int32(s.plan[k])
	}
	if c >= n {
		s.Diverged = true
		c = 0
	}
	if k >= maxPoints {
		s.Overflow = true
		return 0
	}
	s.menus[k] = int16(n)
	s.taken[k] = int16(c)
	s.kinds[k] = kind
	return c
}

// nthRunnable returns the c-th runnable thread other than skip, ascending.
//
//go:norace
func nthRunnable(c int32, skip int32) int32 {
	for i := int32(0); i < s.n; i++ {
		if i != skip && s.status[i] == stRunnable {
			if c == 0 {
				return i
			}
			c--
		}
	}
	return -1
}

//go:norace
func countRunnable(skip int32) int32 {
	n := int32(0)
	for i := int32(0); i < s.n; i++ {
		if i != skip && s.status[i] == stRunnable {
			n++
		}
	}
	return n
}

// Point is a scheduling point of the running managed thread.
//
//go:norace
func Point() {
	t := me()
	if t < 0 {
		return
	}
	others := countRunnable(t)
	if others == 0 {
		return // not a choice
	}
	c := choose(1+others, 0)
	if c == 0 {
		return
	}
	next := nthRunnable(c-1, t)
	s.Switches++
	setTurn(next)
	waitTurn(t)
}

// Block is called when the running thread cannot acquire the lock at addr.
//
//go:norace
func Block(addr uintptr) bool {
	t := me()
	if t < 0 {
		return false // unmanaged goroutine: caller blocks for real
	}
	s.status[t] = stBlocked
	s.blocked[t] = addr
	others := countRunnable(t)
	if others == 0 {
		s.Deadlock = true
		s.status[t] = stRunnable
		return false // let it block for real; the watchdog reports
	}
	c := choose(others, 1)
	next := nthRunnable(c, t)
	setTurn(next)
	waitTurn(t)
	return true
}

// Unblock makes the threads waiting for the lock at addr runnable again.
//
//go:norace
func Unblock(addr uintptr) {
	if !s.active {
		return
	}
	for i := int32(0); i < s.n; i++ {
		if s.status[i] == stBlocked && s.blocked[i] == addr {
			s.status[i] = stRunnable
		}
	}
}

// finish is called by a managed thread when its body has returned.
//
//go:norace
func finish(t int32) {
	s.status[t] = stDone
	others := countRunnable(t)
	if others == 0 {
		for i := int32(0); i < s.n; i++ {
			if s.status[i] == stBlocked {
				s.Deadlock = true
			}
		}
		setTurn(-1)
		return
	}
	c := int32(0)
	if others > 1 {
		c = choose(others, 2)
	}
	setTurn(nthRunnable(c, t))
}

//go:norace
func begin(n int, plan []int16) int32 {
	s.active = false
	s.n = int32(n)
	for i := range s.status {
		s.status[i] = stRunnable
		s.blocked[i] = 0
	}
	s.step = 0
	s.plan = plan
	s.Overflow, s.Diverged, s.Deadlock = false, false, false
	s.Switches = 0
	s.turn = -2 // nobody yet
	s.active = true
	first := int32(0)
	if n > 1 {
		first = choose(int32(n), 2)
	}
	return first
}

//go:norace
func registerTid(i int32) { s.tid[i] = gettid() }

//go:norace
func end() (steps int32, overflow, diverged, deadlock bool, switches int32) {
	s.active = false
	return s.step, s.Overflow, s.Diverged, s.Deadlock, s.Switches
}

//go:norace
func copyLog(menus, taken []int16, kinds []int8, n int32) {
	for i := int32(0); i < n; i++ {
		menus[i] = s.menus[i]
		taken[i] = s.taken[i]
		kinds[i] = s.kinds[i]
	}
}

// Progress returns the global step counter (for a watchdog).
//
//go:norace
func Progress() int32 { return s.step }

// ---------- persistent managed threads ----------

type worker struct {
	id    int32
	start chan func()
	done  chan struct{}
}

var workers []*worker

func ensureWorkers(n int) {
	for len(workers) < n {
		w := &worker{id: int32(len(workers)), start: make(chan func()), done: make(chan struct{})}
		workers = append(workers, w)
		ready := make(chan struct{})
		go func() {
			runtime.LockOSThread()
			registerTid(w.id)
			close(ready)
			for body := range w.start {
				waitTurn(w.id)
				body()
				finish(w.id)
				w.done <- struct{}{}
			}
		}()
		<-ready
	}
}

// Trace is what one execution did.
type Trace struct {
	Menus, Taken []int
	Kinds        []int8
	Overflow     bool
	Diverged     bool
	Deadlock     bool
	Switches     int
}

// Run executes the bodies as managed threads under the given plan and
// returns the trace of scheduling points.
func Run(bodies []func(), plan []int) Trace {
	n := len(bodies)
	if n > maxThreads {
		panic("sched: too many threads")
	}
	ensureWorkers(n)
	p16 := make([]int16, len(plan))
	for i, c := range plan {
		p16[i] = int16(c)
	}
	first := begin(n, p16)
	for i := 0; i < n; i++ {
		workers[i].start <- bodies[i]
	}
	setTurn(first)
	for i := 0; i < n; i++ {
		<-workers[i].done
	}
	steps, ov, dv, dl, sw := end()
	if steps > maxPoints {
		steps = maxPoints
	}
	m16, t16, k8 := make([]int16, steps), make([]int16, steps), make([]int8, steps)
	copyLog(m16, t16, k8, steps)
	tr := Trace{Overflow: ov, Diverged: dv, Deadlock: dl, Switches: int(sw), Kinds: k8}
	tr.Menus, tr.Taken = make([]int, steps), make([]int, steps)
	for i := range m16 {
		tr.Menus[i], tr.Taken[i] = int(m16[i]), int(t16[i])
	}
	return tr
}
