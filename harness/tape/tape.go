// Package tape owns crypto/rand.Reader: every byte spg reads comes from a
// script chosen by the harness, and everything about the reads is recorded.
package tape

import (
	"crypto/rand"
	"encoding/binary"
	"errors"
	"io"

	"go.1password.io/spg"
)

// Source supplies the next 32-bit word when the tape's byte queue is empty.
// bound is the bound announced (through spg's verifDraw hook) for the draw in
// progress, announced tells whether there is one, and cont is true when this
// is not the first word asked for by that draw (the previous one was rejected).
type Source interface {
	NextWord(bound uint32, announced bool, cont bool) (word uint32, err error)
}

// ErrDry is returned (and recorded) when a scripted tape has no word left.
var ErrDry = errors.New("verif tape exhausted")

// Abort is the panic value used to cut an execution short at a depth bound.
type Abort struct{}

// Fault describes an injected failure for one Read call.
type Fault struct {
	Deliver int   // bytes delivered before the error
	Err     error // error returned (nil: a short successful read)
}

// Tape is the scripted reader.
type Tape struct {
	Src Source

	buf [4]byte
	off int // next unread byte of buf; 4 = empty
	// statistics
	Reads       int // Read calls
	Requested   int // bytes asked for
	Served      int // bytes delivered
	Words       int // words drawn from the source
	Unannounced int // words drawn with no announced draw in progress
	ExtraWords  int // words drawn as a continuation of an announced draw
	Draws       int // announced draws
	Dry         bool
	Aborted     bool
	OddSizes    int // Read calls whose length was not 4

	// CloseAfterWord: the source only serves words that the sampler accepts
	// at once (calibrated representatives), so an announced draw is over
	// after one word and a further read without a new announcement is a raw
	// read made outside the bounded draw.
	CloseAfterWord bool

	// log of (bound, word) per word drawn, if LogOn
	LogOn bool
	Log   []Drawn

	lastGood  int
	inRead    int
	bound     uint32
	announced bool
	wordsIn   int // words drawn since the last announcement

	// Fault injection: FaultAt is the 1-based index of the Read call to
	// which Fault applies (0 = none). Chunking: starting with Read call
	// number ChunkAt (1-based), call ChunkAt+i delivers at most Chunks[i]
	// bytes (0 = a (0, nil) return); with ChunkCycle the plan repeats for
	// ever.
	FaultAt         int
	Fault           Fault
	ReadsAfterFault int
	faulted         bool
	ChunkAt         int
	Chunks          []int
	ChunkCycle      bool

	// CanonSeen counts alphabet canonicalisations and records whether any
	// word had been consumed before the first one in this call.
	CanonSeen        int
	WordsBeforeCanon int
}

// Drawn is one word handed to the implementation.
type Drawn struct {
	Bound     uint32
	Announced bool
	Cont      bool
	Word      uint32
}

var cur *Tape

// Dispatch, when set and returning non-nil, selects the tape of the calling
// managed thread (per-thread tapes under the controlled scheduler).
var Dispatch func() *Tape

func current() *Tape {
	if Dispatch != nil {
		if t := Dispatch(); t != nil {
			return t
		}
	}
	return cur
}

type globalReader struct{}

func (globalReader) Read(p []byte) (int, error) {
	t := current()
	if t == nil {
		panic("verif: crypto/rand read with no tape installed")
	}
	return t.Read(p)
}

var installed bool
var osReader io.Reader

// Install routes crypto/rand.Reader and spg's hooks to the tape t.
func Install(t *Tape) {
	if !installed {
		osReader = rand.Reader
		rand.Reader = globalReader{}
		spg.VerifDrawHook = func(n uint32) {
			if t := current(); t != nil {
				t.Announce(n)
			}
		}
		spg.VerifCanonHook = func(size int) {
			if t := current(); t != nil {
				if t.CanonSeen == 0 {
					t.WordsBeforeCanon = t.Words
				}
				t.CanonSeen++
			}
		}
		installed = true
	}
	cur = t
	if t != nil {
		t.inRead = 0
	}
}

// Reset makes the next Install re-claim crypto/rand.Reader and spg's hooks
// (for checks that temporarily used their own reader).
func Reset() { installed = false }

// New makes a tape over a source.
func New(src Source) *Tape { return &Tape{Src: src, off: 4} }

// Announce records the bound of the draw that is about to read.
func (t *Tape) Announce(n uint32) {
	t.bound = n
	t.announced = true
	t.wordsIn = 0
	t.Draws++
}

// EndCall forgets the draw in progress (called by the harness between calls).
func (t *Tape) EndCall() { t.announced = false; t.wordsIn = 0 }

// InRead reports whether a tape is currently serving a Read call of the code
// under test (the harness must not call back into the library then: the
// library may hold a lock around its read).
func InRead() bool {
	t := current()
	return t != nil && t.inRead > 0
}

func (t *Tape) fill() error {
	if t.Aborted {
		panic(Abort{})
	}
	t.inRead++
	w, err := t.Src.NextWord(t.bound, t.announced, t.wordsIn > 0)
	t.inRead--
	if err != nil {
		if err == ErrDry {
			t.Dry = true
		}
		return err
	}
	t.Words++
	if !t.announced {
		t.Unannounced++
	} else if t.wordsIn > 0 {
		t.ExtraWords++
	}
	if t.announced {
		t.wordsIn++
	}
	if t.LogOn {
		t.Log = append(t.Log, Drawn{t.bound, t.announced, t.announced && t.wordsIn > 1, w})
	}
	binary.BigEndian.PutUint32(t.buf[:], w)
	t.off = 0
	if t.CloseAfterWord && t.announced {
		t.announced = false
		t.wordsIn = 0
	}
	return nil
}

// Abort makes every later read panic with Abort{}.
func (t *Tape) AbortNow() {
	t.Aborted = true
	panic(Abort{})
}

func (t *Tape) serve(p []byte) (int, error) {
	n := 0
	for n < len(p) {
		if t.off == 4 {
			if err := t.fill(); err != nil {
				t.Served += n
				return n, err
			}
		}
		c := copy(p[n:], t.buf[t.off:])
		t.off += c
		n += c
	}
	t.Served += n
	return n, nil
}

// Read implements io.Reader.
func (t *Tape) Read(p []byte) (int, error) {
	t.Reads++
	if (t.Dry || t.faulted) && t.Reads > t.lastGood+10000 {
		// the code under test keeps reading from a source that has failed:
		// cut it off instead of spinning for ever
		t.Aborted = true
		panic(Abort{})
	}
	if !t.Dry && !t.faulted {
		t.lastGood = t.Reads
	}
	t.Requested += len(p)
	if len(p) != 4 {
		t.OddSizes++
	}
	if t.faulted {
		t.ReadsAfterFault++
	}
	if t.FaultAt != 0 && t.Reads == t.FaultAt {
		t.faulted = true
		d := t.Fault.Deliver
		if d > len(p) {
			d = len(p)
		}
		n, err := t.serve(p[:d])
		if err != nil {
			return n, err
		}
		if t.Fault.Err == nil && n == len(p) {
			return n, nil
		}
		return n, t.Fault.Err
	}
	if t.Chunks != nil && t.Reads >= t.ChunkAt {
		i := t.Reads - t.ChunkAt
		if t.ChunkCycle {
			i %= len(t.Chunks)
		}
		if i < len(t.Chunks) {
			if sz := t.Chunks[i]; sz < len(p) {
				return t.serve(p[:sz])
			}
		}
	}
	return t.serve(p)
}

// Script is a Source that plays back a fixed list of words.
type Script struct {
	W   []uint32
	Pos int
}

// NextWord implements Source.
func (s *Script) NextWord(uint32, bool, bool) (uint32, error) {
	if s.Pos >= len(s.W) {
		return 0, ErrDry
	}
	w := s.W[s.Pos]
	s.Pos++
	return w, nil
}

// Func adapts a function to Source.
type Func func(bound uint32, announced, cont bool) (uint32, error)

// NextWord implements Source.
func (f Func) NextWord(b uint32, a, c bool) (uint32, error) { return f(b, a, c) }
