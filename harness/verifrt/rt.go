// Package verifrt is the runtime side of the source instrumentation: the
// instrumented copy of package spg (never /repo itself; the copy is handed to
// the compiler with -overlay) calls MapKeys wherever the original ranges over
// a map, and Point before every statement. It must not import spg.
package verifrt

import (
	"fmt"
	"reflect"
	"sort"
)

// OrderHook, when set, chooses the iteration order of a map range: it is
// given the site (file:line of the range statement) and the number of keys
// and returns a permutation of 0..n-1 (applied to the keys in canonical,
// sorted order). nil means canonical order.
var OrderHook func(site string, n int) []int

// PointHook, when set, is called before every statement of instrumented code.
var PointHook func()

// MapKeys returns the keys of map m in the order chosen by the harness.
func MapKeys(site string, m interface{}) []interface{} {
	v := reflect.ValueOf(m)
	ks := v.MapKeys()
	sort.Slice(ks, func(i, j int) bool { return less(ks[i], ks[j]) })
	out := make([]interface{}, len(ks))
	var perm []int
	if OrderHook != nil {
		perm = OrderHook(site, len(ks))
		if perm != nil && len(perm) != len(ks) {
			panic(fmt.Sprintf("verifrt: order hook returned %d indices for %d keys", len(perm), len(ks)))
		}
	}
	for i := range ks {
		j := i
		if perm != nil {
			j = perm[i]
		}
		out[i] = ks[j].Interface()
	}
	return out
}

func less(a, b reflect.Value) bool {
	switch a.Kind() {
	case reflect.String:
		return a.String() < b.String()
	case reflect.Int, reflect.Int8, reflect.Int16, reflect.Int32, reflect.Int64:
		return a.Int() < b.Int()
	case reflect.Uint, reflect.Uint8, reflect.Uint16, reflect.Uint32, reflect.Uint64, reflect.Uintptr:
		return a.Uint() < b.Uint()
	}
	return fmt.Sprint(a.Interface()) < fmt.Sprint(b.Interface())
}

// Point is a scheduling point.
func Point() {
	if PointHook != nil {
		PointHook()
	}
}
