// Package vsync replaces "sync" in the instrumented copy of golang-set's
// threadsafe.go. The mutex wraps the real sync.RWMutex (so the race detector
// still sees the real happens-before edges of lock/unlock) but acquires it
// with TryLock inside a loop of scheduling points: under the controlled
// scheduler a thread that would block is simply not runnable, so waiting is
// visible and "nobody can run" is a deadlock verdict instead of a hang.
package vsync

import (
	"sync"

	"verif/harness/verifrt"
)

// BlockHook, when set, is called each time an acquisition fails; the
// scheduler uses it to mark the current thread as blocked and switch.
var BlockHook func()

// RWMutex has the method set of sync.RWMutex that golang-set uses.
type RWMutex struct{ mu sync.RWMutex }

func (m *RWMutex) Lock() {
	verifrt.Point()
	for !m.mu.TryLock() {
		if BlockHook != nil {
			BlockHook()
		} else {
			m.mu.Lock()
			return
		}
	}
}

func (m *RWMutex) Unlock() { m.mu.Unlock(); verifrt.Point() }

func (m *RWMutex) RLock() {
	verifrt.Point()
	for !m.mu.TryRLock() {
		if BlockHook != nil {
			BlockHook()
		} else {
			m.mu.RLock()
			return
		}
	}
}

func (m *RWMutex) RUnlock() { m.mu.RUnlock(); verifrt.Point() }
