// Package vsync replaces "sync" in the instrumented copy of golang-set's
// threadsafe.go. The mutex wraps the real sync.RWMutex (so the race detector
// still sees the real happens-before edges of lock/unlock) but acquires it
// with TryLock inside a loop of scheduling points: under the controlled
// scheduler a thread that would block is simply not runnable, so waiting is
// visible and "nobody can run" is a deadlock verdict instead of a hang.
package vsync

import (
	"sync"
	"unsafe"

	"verif/harness/verifrt"
)

// BlockHook, when set, is called each time an acquisition fails; the
// scheduler marks the calling thread as blocked on addr and runs another one.
// It returns false if the caller is not a managed thread (or nobody else can
// run), in which case the caller blocks for real.
var BlockHook func(addr uintptr) bool

// UnblockHook, when set, is told that the lock at addr was released.
var UnblockHook func(addr uintptr)

// RWMutex has the method set of sync.RWMutex that golang-set uses.
type RWMutex struct{ mu sync.RWMutex }

func (m *RWMutex) addr() uintptr { return uintptr(unsafe.Pointer(m)) }

func (m *RWMutex) Lock() {
	verifrt.Point()
	for !m.mu.TryLock() {
		if BlockHook == nil || !BlockHook(m.addr()) {
			m.mu.Lock()
			return
		}
	}
}

func (m *RWMutex) Unlock() {
	m.mu.Unlock()
	if UnblockHook != nil {
		UnblockHook(m.addr())
	}
	verifrt.Point()
}

func (m *RWMutex) RLock() {
	verifrt.Point()
	for !m.mu.TryRLock() {
		if BlockHook == nil || !BlockHook(m.addr()) {
			m.mu.RLock()
			return
		}
	}
}

func (m *RWMutex) RUnlock() {
	m.mu.RUnlock()
	if UnblockHook != nil {
		UnblockHook(m.addr())
	}
	verifrt.Point()
}
