#!/bin/sh
# Build the checker from files on disk only (offline) and warm the build cache.
set -e
cd /verif/harness
export GOFLAGS=-mod=mod GOPROXY=off GOSUMDB=off GOTOOLCHAIN=local
export GOCACHE=/verif/.cache/go-build
mkdir -p /verif/bin /verif/evidence
cp /repo/go.sum /verif/harness/go.sum 2>/dev/null || true
go build -tags verif -o /verif/bin/check ./cmd/check
# warm the -race standard library for C14 (first -race build is slow)
go build -race -tags verif -o /verif/bin/check_racewarm ./cmd/check && rm -f /verif/bin/check_racewarm
echo setup ok
