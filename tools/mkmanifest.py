#!/usr/bin/env python3
"""Regenerates /verif/MANIFEST.json from the table below (kept here so the
manifest stays valid and consistent while checks are added)."""
import json, subprocess, sys

HOOK_COMMITS = subprocess.run(
    ["git", "-C", "/repo", "log", "--format=%H %s", "208adb0..HEAD"],
    capture_output=True, text=True).stdout.strip().splitlines()
hook_commits = [l.split()[0] for l in HOOK_COMMITS if not l.split(" ", 1)[1].startswith("fix:")]

CHECKS = {
 "C01": dict(
   engine="E1-sweep", category="model_checking", ref="§3 C01",
   technique="exhaustive enumeration of all 2^32 random words per bound on the real code (scripted crypto/rand.Reader), histogram equality",
   text="For each listed bound n, every one of the 2^32 possible first words (and continuations after rejected words) is run through the real randomUint32n; the per-outcome histogram must be exactly flat, fewer than half the words rejected, rejected words redrawn. This is a complete enumeration of the draw's input space for those n, which is the only way to see a 1-in-2^32 bias. A third layer sweeps all 2^32 values of the one random word that decides a coin flip, a word, a capitalised position, a character and a separator digit inside the real Generate (thorough: always; quick: when a boundary menu shows that the pick does not simply follow the swept primitive). Also: runs of 2 to 100000 rejected words must all be redrawn, and (boundary layer, every n<=2^12/2^16 and 2^k+-d) words delivered 1/2/3 bytes per read must give the same outcome.",
   note="Bounds outside the swept list get only the boundary-word layer (necessary conditions). Trusted: go1.23.5 crypto/rand.Read = io.ReadFull(Reader, b); the histogram code in /verif/harness/checks/c01.go."),
 "C02": dict(
   engine="E1-cells", category="model_checking", ref="§3 C02, §2.2",
   technique="stateless DFS over every outcome combination of every bounded draw of the real Generate (complete cell), exact rational output distribution compared with an independent model",
   text="Every combination of draw outcomes is executed on the real code for each recipe of a ~68k-recipe configuration set, 1-3 candidates deep; the exact probability of every returned string is computed as a rational and must be equal over exactly the model's valid strings. Single-word lift/reject deviations show that only the accepted outcome of a draw matters. Long passwords (2-65, thorough 257 characters): every execution in which exactly one draw supplies the required character, with a position-coverage oracle before and after rejected candidates. Every leaf is replayed with one byte per read and with runs of rejected words; ordered pairs of confusable recipes run in one process.",
   note="Relies on C01 for per-draw uniformity; cells are bounded (lengths 1-3 for custom alphabets, class-sized alphabets up to 10^4 leaves); retry depth cut at 1-3 candidates with the cut mass accounted."),
 "C07": dict(
   engine="E-config", category="model_checking", ref="§3 C07",
   technique="exhaustive configuration enumeration of the real Entropy()/exact count against independent inclusion-exclusion and brute-force string enumeration",
   text="Entropy() involves no randomness, so the whole bounded recipe space is enumerated: every allow/exclude subset and every multiset of required subsets over a 4-5 character universe (all overlap patterns), all 2^15 class-flag triples, lengths to 5000, 5-8 required sets. The exact integer behind the entropy must equal an independently computed count; the float must be its log2 within 1 ulp32.",
   note="Universe and lengths are bounded as stated in the evidence rule; recipes whose required set is emptied by exclusion are outside the property's premise and skipped. Trusted: math/big, math.Log2, the verif-tagged VerifCount export mirroring Entropy()'s branch."),
 "C13": dict(
   engine="E1-cells", category="model_checking", ref="§3 C13",
   technique="exhaustive enumeration of recipe configurations and of a scripted all-attempts-fail random tape on the real Generate/SuccessProbability, against an exact rational model",
   text="All recipes of the overlap universe and all 2^15 flag triples are run through the real SuccessProbability and Generate (panics recovered) and compared with the exact rational success probability and the refusal rule derived from it; degenerate character and wordlist values are enumerated; a tape policy on which every candidate fails checks the attempt budget under eight (MaxTrials, MaxFailRate) settings including a tolerated failure rate of 0; lengths up to 1000 (thorough 5000) cover entropies beyond 1024 bits. Degenerate wordlist recipes are crossed with every scheme and separator setting; a stream on which Generate never stops drawing is cut off and reported as a budget violation.",
   note="Lengths bounded (1-8, 20 for flag triples, a sparse set up to 1000/5000 for six recipes); a rounding band around the refusal threshold is classified 'either'; recipes with a required set emptied by exclusion are 'either' (see DESIGN §4)."),
 "C03": dict(
   engine="E1-cells", category="model_checking", ref="§3 C03",
   technique="exhaustive enumeration of all 2^15 class-flag triples x custom settings, deviation-bounded exploration of the draws of the real Generate (each position forced to each alphabet index), token-level oracle from an independent model",
   text="Every flag triple is crossed with 9 custom-string settings and 3 lengths; Alphabet() must equal the model's alphabet exactly, and every password returned on policy tapes that force each alphabet index (including the last) at each position, and that make the first candidate miss each requirement in turn, must consist of Length single-character atoms from the alphabet, meet every live requirement and contain no excluded character. The ordered-pair pass over confusable recipes (state leaking between recipes) and the enumeration of all 120 iteration orders of the class map (instrumented build) are part of the check.",
   note="Deviation bound 1 (quick) / 2 (thorough) draws per execution relative to a model-chosen valid candidate; complete outcome products are covered for small alphabets by C02. Full position x index forcing only for the 3-class flag subset; other triples force first/last position to indices 0,1,last."),
 "C04": dict(
   engine="E1-cells", category="model_checking", ref="§3 C04",
   technique="stateless DFS over every outcome combination of every bounded draw of the real WLRecipe.Generate (complete cell); exact rational distribution over token sequences equals the uniform independent product",
   text="For 10 word lists (sizes 1,2,3,5; twins, caseless, pre-capitalised, non-ASCII), lengths 1-3, the five schemes and 10 separator settings, every combination of word, capitalisation and separator draws is executed; each password's exact probability must equal that of the uniform product space pushed through title-casing - which fails if any coordinate is non-uniform, correlated, reused or out of range. Lengths 4-130 (thorough 300) are covered by single-deviation coverage exploration (each word at each position, each capitalisation coordinate, each separator value per gap) plus a pigeonhole bound; leaves are replayed with one byte per read and with runs of rejected words.",
   note="Relies on C01; cells bounded (<=6000 leaves quick, <=300000 thorough); lists violating the title-casing premise are skipped when capitalisation is on; retrying separator recipes are outside complete cells."),
 "C05": dict(
   engine="E1-cells", category="model_checking", ref="§3 C05",
   technique="the same complete cells, every leaf checked against the token grammar; deviation-bounded DFS (<=2-3 deviating draws) for separator recipes with retries",
   text="Every password produced in the complete cells of C04's configuration set, plus unknown scheme strings, 255-character words, lengths 4-5 and multi-byte separators, is parsed token by token: A (S A)* with exactly Length atoms, separators from the separator's value set, capitalisation pattern per scheme, String()/Atoms()/Separators() consistent. Lengths 16-257 (thorough 1000) with at most one deviating draw, title-casing corner-case words and a caller-written separator that is sometimes empty are included.",
   note="Positions holding words that do not change under title-casing cannot reveal the capitalisation choice and are skipped; the empty word is outside the explored alphabet."),
 "C06": dict(
   engine="E1-cells", category="model_checking", ref="§3 C06",
   technique="exact rational output distributions from complete-cell DFS of the real generators; max probability compared with 2^-Entropy()",
   text="Uses the exact output distributions of C02's character cells and C04's wordlist cells (plus lists with uncapitalisable words under one/random): no password may be likelier than 2^-Entropy() (8 float32 ulps), equality must hold when generation is uniform, every returned Password.Entropy must be bit-identical to Entropy(), and Entropy() must not depend on the random stream. Long wordlist recipes (8-130 words) are judged by a pigeonhole bound (Entropy() <= bits of randomness one generation consumes) and by the coverage exploration; small cells are re-explored with a source delivering one byte per read.",
   note="Same bounds as C02/C04; probabilities of retrying recipes are conditioned on success."),
 "C11": dict(
   engine="E1-cells", category="model_checking", ref="§3 C11",
   technique="exhaustive enumeration of token sequences reachable through the public API (all leaves of generation cells; all Tokenize constructions over a small alphabet), round trip through the real MakeIndices/Tokenize",
   text="Every password of the complete wordlist and multi-byte character cells, words and separators of 127-256 characters (ASCII and 2-byte), and every token sequence constructible with Tokenize from <=4-character strings and <=5-byte indices is encoded and decoded again; values, types, entropy bits and the documented index size must match, and tokens beyond 255 characters must be refused or at least not lossy. Also: invalid-UTF-8 tokens, character passwords of up to 70000 characters, every atom/separator pattern of 1-7 tokens, and validity of earlier indices after later MakeIndices calls.",
   note="Token sequences with empty tokens or undocumented type bytes are outside the property's premise and only counted (observation in DESIGN §4)."),
 "C12": dict(
   engine="E-config", category="model_checking", ref="§3 C12",
   technique="exhaustive enumeration of index byte strings (all kinds 0..255, all lengths/parities; thorough: every byte string of length 0-3) x strings, real Tokenize with panics recovered, reference decoder oracle",
   text="Tokenize is a pure function of (string, index, entropy); the index space is enumerated exhaustively within the stated bounds for 9 strings including invalid UTF-8 and the empty string. Each call must return; a success must agree token by token with a reference decoder of the documented format; malformed indices must be errors.",
   note="Index tails are drawn from {0,1,2,3,5,255} beyond length 3; an error on a decodable index is allowed by the property and only counted."),
 "C09": dict(
   engine="E1-faults", category="fault_enumeration", ref="§3 C09",
   technique="fault enumeration at every read position of the real generation path over a scripted crypto/rand.Reader (errors after 0-3 bytes, all chunkings of a 4-byte read)",
   text="For 8 recipes x 4 scripted streams, a failure is injected at every individual read of the fault-free run (retry attempts, rejection-loop reads and separator sub-generations included): error faults must yield no password and no further reads; every way of chunking a read must leave the password, entropy and bytes consumed unchanged; replaying the bytes must reproduce the result and flipping words must be able to change it.",
   note="go1.23.5 semantics of crypto/rand.Read (returns the reader's error). Single-fault executions; the menu of errors is {custom error, io.EOF}."),
 "C16": dict(
   engine="E-config", category="exploration", ref="§3 C16",
   technique="complete enumeration of a finite configuration space (classes, defaults, constants, every preset's complete draw cell, every shipped list entry) against values transcribed from the documentation and the data files",
   text="Nothing here depends on input: every documented constant and default is compared, each separator preset is explored over the complete cell of its draws (exact value set, exact probabilities, entropy), and both shipped lists are compared entry by entry with testdata.",
   note="The documented values are transcribed into /verif/harness/checks/c16.go; the data files in /repo/testdata are the reference for the lists."),
 "C18": dict(
   engine="E1-cells", category="model_checking", ref="§3 C18",
   technique="complete-cell DFS of the real generators with fd-level capture of stdout/stderr/log per execution; secret-glyph search plus non-interference across random streams and across two alphabet relabellings",
   text="Recipes are instantiated over glyphs that occur in no diagnostic text; every execution of their cells (returned, retried, refused, all-attempts-fail), NewWordList with duplicates and the entropy entry points are run with file descriptors 1 and 2 captured. No glyph may appear, and the captured text must be the same for every stream of an outcome class and for both relabellings - so it cannot encode the secret even indirectly. A source failure is injected at each of the first 6-8 reads; alphabets with bytes that are not valid UTF-8 are included.",
   note="Outcome classes are (returned/failed, words consumed); diagnostics may legitimately depend on those. Class-based recipes use non-interference only."),
 "C08": dict(
   engine="E2-maporder", category="model_checking", ref="§3 C08, §1 E2",
   technique="exhaustive enumeration of Go map-iteration orders (source-instrumented scratch copy built with -overlay) x all input sequences over an 8-word universe, on the real NewWordList/Entropy",
   text="Map iteration order is nondeterminism the tests never control. The instrumenter routes every map range of package spg through a hook; for every input sequence (all permutations/repetitions of every sub-multiset of 8 words, length <=3/4) every order of each range in NewWordList is executed, and Entropy() of 63-126 recipes must match the documented formula and be bit-identical across orders, permutations, repetitions, repeated calls and random streams.",
   note="Orders: full product of the loops' orders for <=3 distinct words, one loop deviating at a time for more. The rewrite is validated on each run by passing /repo's own tests on the instrumented copy. Map ranges inside golang-set are left to the runtime."),
 "C10": dict(
   engine="E2-maporder", category="model_checking", ref="§3 C10, §1 E2",
   technique="the same exhaustive map-order x input-sequence enumeration; kept set read back through the public API and compared with an independent normalisation model",
   text="For every input sequence and every iteration order of the loops in NewWordList the kept set (read out by generating one-word passwords for every index, plus their capitalised forms) must equal the model's normalisation, Size() must match, the caller's slice must be untouched and the empty list rejected.",
   note="As C08."),
 "C15": dict(
   engine="E4-sequences", category="model_checking", ref="§3 C15, §1 E4",
   technique="exhaustive enumeration of all API-call/field-update sequences up to depth 4-5 over 18 operations on live values, with a differential oracle (same call on freshly built values, same scripted random stream), a snapshot oracle and a reference-model oracle",
   text="Every sequence of queries (Generate/Entropy/Alphabet/SuccessProbability, separator functions) and caller-side updates (including an in-place edit of the RequireSets slice) up to the depth bound is executed; after each query the caller-visible state must equal its snapshot, the result and bytes consumed must equal those of the same call on freshly constructed values, and the result must fit the model evaluated on the current fields (which catches state cached outside the values). Part B: all ordered pairs of ~75 confusable character recipes and 96 wordlist recipes sharing a list (queries on A, then B checked against the model); operations include calls on a source that fails mid-call and by-value copies of a recipe.",
   note="Depth bound 4 (quick) / 5 (thorough); instrumented build so that word order of freshly built lists is canonical; no state hashing (plain sequence enumeration)."),
 "C17": dict(
   engine="E5-cli", category="exploration", ref="§3 C17, §1 E5",
   technique="exhaustive enumeration of the flag-value product per subcommand, run against the built binary with a scripted random tape, compared with the library/model recipe the flags denote",
   text="The CLI's input space is a finite product of documented flag values; all combinations (within the stated value lists) are run through the real binary. stdout must be exactly one line - the library's password on the same tape or at least a password the denoted recipe can generate, or its entropy to two decimals - with status 0; refused recipes must exit 1 and usage errors 2 without printing a password. Flag values include class lists with several blanks and repeated names; word files with duplicates, twins, one word, '%' characters, a 64 KiB line and a 70000-character word.",
   note="Exploration level: values per flag are a stated finite list (documented names only); word passwords are validated by segmentation against the normalised list because word order inside the binary's list is not controlled."),
 "C14": dict(
   engine="E3-scheduler", category="model_checking", ref="§3 C14, §1 E3",
   technique="stateless deviation-bounded DFS over thread schedules of the real code under a controlled scheduler (futex hand-off invisible to the race detector), -race build of a source-instrumented copy; per-schedule result, snapshot, deadlock and race-report oracles",
   text="Nine small harness bodies share one CharRecipe, WLRecipe, WordList, a constructed separator function and the package-level presets between 2-3 threads. Every schedule with at most 1 (quick) / 2 (thorough, two-thread scenarios) deviations from the default schedule, at statement granularity in package spg and lock granularity in golang-set, is executed. Because hand-offs create no happens-before edge, the race detector checks every explored schedule; results must equal each call's sequential result on its own random stream and shared values must be unchanged. 30 scenarios (including recipes with overlapping or unsorted required sets, separator functions with exclusions and runs under MaxTrials = 10 / 1000) and a battery of every unordered pair of the call alphabet on the default schedule (the hand-off is invisible to the race detector, so one schedule shows any state two calls share unsynchronised); every schedule starts from freshly built shared values and each scenario runs first (cold package state) in one worker.",
   note="Bounded deviations (preemptions and non-default thread choices both cost 1); trusts the Go race detector for raw access pairs; helper goroutines of golang-set's Iter() run free; Go memory-model effects beyond race reports are not modelled."),
}

PENDING_REASON = "check not built yet in this session (planned in DESIGN.md §3; will be claimed when its checker exists)"

def main():
    props = [json.loads(l) for l in open("/verif/properties.jsonl")]
    checks, na = [], []
    for p in props:
        i = p["id"]
        if i in CHECKS:
            c = CHECKS[i]
            e = dict(property_id=i,
                     quick_cmd=f"./run {i} quick",
                     thorough_cmd=f"./run {i} thorough",
                     evidence_file=f"/verif/evidence/{i}.json",
                     replay_cmd_template=f"./run {i} quick --replay {{path}}",
                     engine=c["engine"],
                     level_claimed=dict(category=c["category"], text=c["text"], design_ref=c["ref"]),
                     level_note=c["note"],
                     technique=c["technique"])
            checks.append(e)
        else:
            na.append(dict(property_id=i, reason=PENDING_REASON))
    m = dict(
        version=1,
        setup_cmd="./setup.sh",
        hooks=dict(
            guard="verif",
            enable="go build -tags verif; harness module /verif/harness has `replace go.1password.io/spg => /repo`, so every check compiles /repo's current working tree; map-order/schedule checks additionally use `go build -overlay` on an instrumented scratch copy (never /repo itself)",
            baseline_off_cmd="cd /repo && GOFLAGS=-mod=mod go test -json -vet=off -count=1 -timeout 25m ./...",
            source_commits=hook_commits,
            add_only=True),
        engines=[
            dict(name="E1-sweep", path="/verif/harness/checks/c01.go", serves_properties=["C01"], kind_free_text="full 2^32 word sweep over a scripted crypto/rand.Reader, shared-memory histogram"),
            dict(name="E1-cells", path="/verif/harness/checks/cells.go", serves_properties=["C02","C03","C04","C05","C06","C11","C13","C18"], kind_free_text="stateless DFS over announced draw outcomes (tape explorer) with exact rational leaf masses"),
            dict(name="E1-faults", path="/verif/harness/checks/c09.go", serves_properties=["C09"], kind_free_text="fault injector on the scripted reader: error/short-read at every read position"),
            dict(name="E2-maporder", path="/verif/harness/instrument/instrument.go", serves_properties=["C08","C10"], kind_free_text="AST instrumenter (map ranges -> verifrt.MapKeys, optional scheduling points) + go build -overlay + DFS over all iteration orders"),
            dict(name="E4-sequences", path="/verif/harness/checks/c15.go", serves_properties=["C15"], kind_free_text="explicit enumeration of operation sequences on live recipe values with differential + snapshot + model oracles"),
            dict(name="E5-cli", path="/verif/harness/checks/c17.go", serves_properties=["C17"], kind_free_text="command-line product enumerator over the built opgen binary (tag verif, $VERIF_TAPE)"),
            dict(name="E3-scheduler", path="/verif/harness/sched/sched.go", serves_properties=["C14"], kind_free_text="controlled scheduler (one managed OS-thread-locked goroutine runs at a time, raw-futex hand-off in //go:norace code), schedule plans + logged menus, deviation-bounded DFS, sharded by first deviation"),
            dict(name="E-config", path="/verif/harness/checks/c07.go", serves_properties=["C07","C12","C16"], kind_free_text="exhaustive enumeration of recipe configurations (no randomness involved)"),
        ],
        checks=checks,
        notes="All checks: ./run <ID> <tier> rebuilds /verif/bin/check from /repo's working tree with -tags verif, then shards over 16 worker processes. See DESIGN.md.",
        not_applicable=na)
    json.dump(m, open("/verif/MANIFEST.json", "w"), indent=1)
    print("checks:", [c["property_id"] for c in checks], "na:", len(na))

main()
