#!/usr/bin/env python3
"""refactor_eval.py <dir with patch.diff> <name> <check ids...>
False-alarm test: a behaviour-preserving change is applied to a scratch worktree of /repo, the
repository's tests are run on it, and the named checks (quick tier) are run from a scratch snapshot
of /verif against it (VERIF_REPO). Every check must exit 0 with no VIOLATION line."""
import json, os, re, shutil, subprocess, sys, time
ENV = dict(os.environ, GOFLAGS="-mod=mod", GOPROXY="off", GOSUMDB="off", GOTOOLCHAIN="local")
def sh(cmd, cwd=None, env=ENV, timeout=7200):
    p = subprocess.run(cmd, shell=True, cwd=cwd, env=env, capture_output=True, text=True, errors="replace", timeout=timeout)
    return p.returncode, p.stdout + p.stderr
src, name = sys.argv[1], sys.argv[2]
checks = sys.argv[3:]
wt, vs = f"/tmp/rf-repo-{name}", f"/tmp/rf-verif-{name}"
sh(f"git -C /repo worktree remove --force {wt}"); sh(f"git -C /verif worktree remove --force {vs}")
sh(f"git -C /repo worktree add -q --detach {wt} HEAD"); sh(f"git -C /verif worktree add -q --detach {vs} HEAD")
res = dict(name=name, checks={})
try:
    rc, out = sh(f"git apply {src}/patch.diff", cwd=wt)
    res["applies"] = rc == 0
    if rc: print(out)
    rc, out = sh("go build ./... && go build -tags verif ./... && go test -vet=off -count=1 ./...", cwd=wt)
    res["repo_tests"] = rc == 0
    if rc: print(out[-800:])
    env = dict(ENV, VERIF_REPO=wt)
    for cid in checks:
        t0 = time.time()
        rc, out = sh(f"./run {cid} {os.environ.get('TIER','quick')}", cwd=vs, env=env)
        viol = [l for l in out.splitlines() if l.startswith("VIOLATION")]
        m = re.search(r"VIOLATION[^\n]*\n\s+([^\n]*)", out)
        summ = [l for l in out.splitlines() if l.startswith(cid+" ")]
        res["checks"][cid] = dict(exit=rc, violations=len(viol), first=(m.group(1)[:500] if m else ""), summary=(summ[-1] if summ else out[-300:]), wall_s=round(time.time()-t0,1))
        print(cid, "exit", rc, "viol", len(viol), (m.group(1)[:300] if m else ""), flush=True)
finally:
    sh(f"git -C /repo worktree remove --force {wt}"); sh(f"git -C /verif worktree remove --force {vs}")
res["false_alarms"] = [c for c, d in res["checks"].items() if d["exit"] != 0 or d["violations"]]
os.makedirs("/verif/seeded/refactors", exist_ok=True)
dst = f"/verif/seeded/refactors/{name}"
os.makedirs(dst, exist_ok=True)
for f in os.listdir(src):
    if f != "prompt.txt": shutil.copy(f"{src}/{f}", f"{dst}/{f}")
json.dump(res, open(f"{dst}/result.json", "w"), indent=1)
print(json.dumps({k: res[k] for k in ("applies", "repo_tests", "false_alarms")}))
