#!/usr/bin/env python3
"""regress.py [names...]: re-runs the owning check (quick) against every kept property-breaking change
under /verif/seeded and /verif/mutants, each applied to a scratch worktree of /repo (VERIF_REPO), from
ONE scratch snapshot of /verif HEAD. Prints one line per change and a summary; writes
/verif/seeded/REGRESSION.json. /repo itself is not touched."""
import json, os, re, subprocess, sys, time
ENV = dict(os.environ, GOFLAGS="-mod=mod", GOPROXY="off", GOSUMDB="off", GOTOOLCHAIN="local")
def sh(cmd, cwd=None, env=ENV, timeout=3000):
    try:
        p = subprocess.run(cmd, shell=True, cwd=cwd, env=env, capture_output=True, text=True, errors="replace", timeout=timeout)
        return p.returncode, p.stdout + p.stderr
    except subprocess.TimeoutExpired:
        return 124, "TIMEOUT"
items = []
for d in sorted(os.listdir("/verif/seeded")):
    if re.match(r"C\d\d-", d) and os.path.exists(f"/verif/seeded/{d}/patch.diff"):
        owner = d[:3]
        try:
            det = json.load(open(f"/verif/seeded/{d}/meta.json")).get("detected_by") or []
            if det and owner not in det:
                owner = det[0]  # e.g. a 1-in-2^32 sampler bias seeded for C02 is decided by C01's sweep
        except Exception:
            pass
        items.append((d, f"/verif/seeded/{d}/patch.diff", owner))
for f in sorted(os.listdir("/verif/mutants")):
    m = re.match(r"c(\d\d)-.*\.diff$", f)
    if m: items.append((f, f"/verif/mutants/{f}", "C" + m.group(1)))
if len(sys.argv) > 1:
    items = [i for i in items if any(a in i[0] for a in sys.argv[1:])]
# REGRESS_OUT: write results there after every item (a run that is stopped early keeps what it has);
# REGRESS_SKIP: a log of an earlier run whose items are not repeated
OUT = os.environ.get("REGRESS_OUT", "/verif/seeded/REGRESSION.json")
if os.environ.get("REGRESS_SKIP"):
    done = {l.split()[0] for l in open(os.environ["REGRESS_SKIP"]) if " exit 1 " in l}
    items = [i for i in items if i[0] not in done]
vs = "/tmp/regress-verif"
sh(f"git -C /verif worktree remove --force {vs}"); sh(f"git -C /verif worktree add -q --detach {vs} HEAD")
res = {}
try:
    for name, patch, owner in items:
        wt = "/tmp/regress-repo"
        sh(f"git -C /repo worktree remove --force {wt}"); sh(f"git -C /repo worktree add -q --detach {wt} HEAD")
        rc, out = sh(f"git apply {patch}", cwd=wt)
        if rc != 0:
            res[name] = dict(owner=owner, status="patch does not apply"); print(name, "PATCH-FAIL", flush=True); continue
        t0 = time.time()
        rc, out = sh(f"./run {owner} quick", cwd=vs, env=dict(ENV, VERIF_REPO=wt))
        viol = len([l for l in out.splitlines() if l.startswith("VIOLATION")])
        res[name] = dict(owner=owner, exit=rc, violations=viol, wall_s=round(time.time() - t0, 1))
        print(name, owner, "exit", rc, "violations", viol, f"{time.time()-t0:.0f}s", flush=True)
        sh(f"git -C /repo worktree remove --force {wt}")
        if OUT != "/verif/seeded/REGRESSION.json":
            json.dump(dict(results=res, partial=True), open(OUT, "w"), indent=1)
finally:
    sh(f"git -C /verif worktree remove --force {vs}"); sh("git -C /repo worktree prune")
missed = [n for n, r in res.items() if not (r.get("exit") == 1 and r.get("violations", 0) > 0)]
json.dump(dict(results=res, missed=missed), open(OUT, "w"), indent=1)
print(f"{len(res)} changes, {len(res)-len(missed)} detected by the owning check, missed: {missed}")
