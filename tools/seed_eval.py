#!/usr/bin/env python3
"""seed_eval.py <PROP> <k> <check ids...>
Confirms an independently written property-breaking change (from /tmp/wt/out/<PROP>/<k>/):
  1. in a fresh scratch worktree of /repo: the patch applies, the package builds, the repository's
     tests pass 3x with it, the demonstration fails with it and passes without it;
  2. applied to /repo itself (and undone straight afterwards): which of the named checks (quick tier,
     or $TIER) report a VIOLATION.
Keeps the change under /verif/seeded/<PROP>-<k>/ with meta.json."""
import json, os, re, shutil, subprocess, sys, time

ENV = dict(os.environ, GOFLAGS="-mod=mod", GOPROXY="off", GOSUMDB="off", GOTOOLCHAIN="local")

def sh(cmd, cwd=None, timeout=3600):
    p = subprocess.run(cmd, shell=True, cwd=cwd, env=ENV, capture_output=True, text=True, errors="replace", timeout=timeout)
    return p.returncode, p.stdout + p.stderr

def main():
    prop, k = sys.argv[1], sys.argv[2]
    checks = sys.argv[3:]
    src = f"{os.environ.get('SEED_ROOT', '/tmp/wt/out')}/{prop}/{k}"
    dst = f"/verif/seeded/{prop}-{os.environ.get('SEED_TAG', '')}{k}"
    patch = f"{src}/patch.diff"
    notes = open(f"{src}/notes.md").read() if os.path.exists(f"{src}/notes.md") else ""
    demos = [f for f in os.listdir(src) if f.endswith(".go")]
    race = "-race" if re.search(r"go test[^\n]*-race", notes) else ""
    wt = f"/tmp/sv-{prop}-{k}"
    sh(f"git -C /repo worktree remove --force {wt}")
    rc, out = sh(f"git -C /repo worktree add -q --detach {wt} HEAD")
    meta = dict(property=prop, source="independent sub-agent (given only the property text and a scratch worktree)", ran=[])
    try:
        rc, out = sh(f"git apply {patch}", cwd=wt)
        meta["patch_applies"] = rc == 0
        if rc != 0:
            print("patch does not apply:", out); return finish(meta, src, dst, False)
        rc, out = sh("go build ./...", cwd=wt)
        meta["builds"] = rc == 0
        passes = 0
        for i in range(3):
            rc, out = sh("go test -vet=off -count=1 ./...", cwd=wt)
            passes += rc == 0
        meta["repo_tests_pass_with_change"] = f"{passes}/3"
        meta["ran"].append("go build ./... ; go test -vet=off -count=1 ./... (3x) in a scratch worktree with the patch")
        sub = "."
        for d in demos:
            body = open(f"{src}/{d}").read()
            if re.search(r"^package main", body, re.M):
                sub = "./cmd/opgen/"
            dest = f"{wt}/{sub}/zz_seed_{d}" if d.endswith("_test.go") else f"{wt}/{sub}/{d}"
            shutil.copy(f"{src}/{d}", dest)
        # a demonstration that must run alone (cold start) names its tests with -run in the notes
        runpat = ""
        m2 = re.search(r"go test[^\n]*-run[ =]'?\"?([A-Za-z0-9_|^$.*]+)", notes)
        if m2 and os.environ.get("DEMO_RUN_ONLY"):
            runpat = f"-run '{m2.group(1)}'"
        demo_cmd = f"go test {race} -vet=off -count=1 {runpat} {sub}"
        rc_with, out_with = sh(demo_cmd, cwd=wt)
        fails = re.findall(r"--- FAIL: (\S+)", out_with)
        meta["demo_fails_with_change"] = rc_with != 0
        meta["demo_failing_tests"] = fails[:5]
        sh(f"git apply -R {patch}", cwd=wt)
        rc_without, out_without = sh(demo_cmd, cwd=wt)
        meta["demo_passes_without_change"] = rc_without == 0
        meta["ran"].append(f"{demo_cmd} with the demonstration placed at the worktree root: with the patch -> exit {rc_with} {fails[:3]}; without -> exit {rc_without}")
        if rc_without != 0:
            print(out_without[-1500:])
    finally:
        sh(f"git -C /repo worktree remove --force {wt}")
    ok = meta.get("builds") and passes == 3 and meta["demo_fails_with_change"] and meta["demo_passes_without_change"]
    meta["confirmed"] = bool(ok)
    # run our checks against it
    rc, out = sh("git -C /repo diff --quiet")
    if rc != 0:
        print("/repo dirty; not running checks"); return finish(meta, src, dst, ok)
    tier = os.environ.get("TIER", "quick")
    det = {}
    rc, out = sh(f"git -C /repo apply {patch}")
    try:
        for cid in checks:
            t0 = time.time()
            rc, out = sh(f"./run {cid} {tier}", cwd="/verif", timeout=2400)
            viol = [l for l in out.splitlines() if l.startswith("VIOLATION")]
            first = ""
            m = re.search(r"VIOLATION[^\n]*\n\s+([^\n]*)", out)
            if m: first = m.group(1)[:400]
            det[cid] = dict(exit=rc, violations=len(viol), first=first, wall_s=round(time.time()-t0, 1))
            print(cid, "exit", rc, "violations", len(viol), first[:200])
    finally:
        sh("git -C /repo checkout -- . && git -C /repo clean -fdq")
        sh("rm -rf /verif/replays")
    meta["checks_run"] = det
    meta["detected_by"] = [c for c, d in det.items() if d["exit"] == 1 and d["violations"] > 0]
    meta["ran"].append(f"git -C /repo apply patch.diff; ./run <ID> {tier} for {checks}; git -C /repo checkout -- .")
    finish(meta, src, dst, ok)

def finish(meta, src, dst, ok):
    os.makedirs(dst, exist_ok=True)
    for f in os.listdir(src):
        shutil.copy(f"{src}/{f}", f"{dst}/{f}")
    notes = open(f"{src}/notes.md").read() if os.path.exists(f"{src}/notes.md") else ""
    m = re.search(r"(?is)(needs?|manifest|trigger)[^\n]*\n(.{0,600})", notes)
    meta["needs_to_manifest"] = (m.group(0)[:700] if m else "see notes.md")
    json.dump(meta, open(f"{dst}/meta.json", "w"), indent=1, ensure_ascii=False)
    print(json.dumps({k: meta.get(k) for k in ("confirmed", "repo_tests_pass_with_change", "demo_fails_with_change", "demo_passes_without_change", "detected_by")}))

main()
